#!/bin/bash
# Runs every seeded change against the check of the property it breaks (quick tier) and prints
# one line per change: caught / MISSED / patch no longer applies (the tree moved on).
# usage: tools/seeded_regress.sh [first-id]   (resume from that id)
cd "$(dirname "$0")/.."
from=${1:-}
for d in seeded/*/; do
  id=$(basename $d)
  if [ -n "$from" ] && [[ "$id" < "$from" ]]; then continue; fi
  prop=$(python3 -c "import json;print(json.load(open('$d/meta.json'))['breaks_property'])")
  out=$(timeout 900 tools/mutant.sh $d/patch.diff $prop 2>&1); if [ $? -eq 124 ]; then echo "$id $prop TIMEOUT (no verdict within 15 min: a hang; the check itself ends INCONCLUSIVE through its watchdog)"; continue; fi
  if echo "$out" | grep -q "does not apply\|does not compile"; then echo "$id $prop NOT-APPLICABLE ($(echo "$out" | head -1 | cut -c1-80))"; continue; fi
  line=$(echo "$out" | grep "^MUTANT" | head -1)
  if echo "$line" | grep -q "exit=1"; then echo "$id $prop caught"; else echo "$id $prop MISSED :: $line"; fi
done
