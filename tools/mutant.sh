#!/bin/bash
# usage: tools/mutant.sh <patch-file> <Cxx> [more Cxx...]
# Copies /repo to a scratch directory, applies the patch, confirms that the
# repository's own suite still passes (otherwise it is not a mutant these checks
# exist for), runs the given quick checks against the copy and removes it.
# MUTANT_BASE=<commit>: start from that commit of /repo instead of its working tree.
set -u
export GOFLAGS=-mod=mod GOPROXY=off GOSUMDB=off GOTOOLCHAIN=local
patch=$(realpath "$1"); shift
kit=$(cd "$(dirname "$0")/.." && pwd)
d=$(mktemp -d /var/tmp/verif-mutant.XXXXXX)
trap 'rm -rf "$d"' EXIT
if [ -n "${MUTANT_BASE:-}" ]; then
  # the patch was written for an earlier commit of /repo (a later fix: commit rewrote the same lines)
  mkdir -p "$d/repo" && git -C /repo archive "$MUTANT_BASE" | tar -x -C "$d/repo"
else
  rsync -a --exclude .git /repo/ "$d/repo/"
fi
cd "$d/repo"
if ! patch -p1 -s < "$patch"; then echo "MUTANT $(basename $patch): patch does not apply"; exit 3; fi
if ! go build ./... 2>"$d/build.log"; then echo "MUTANT $(basename $patch): does not compile"; tail -5 "$d/build.log"; exit 3; fi
if go test -vet=off -count=1 ./... >"$d/suite.log" 2>&1; then suite=passes; else suite=FAILS; fi
for p in "$@"; do
  out=$(cd "$kit" && VERIF_REPO="$d/repo" VERIF_KIT="$kit" VERIF_EVIDENCE_DIR="$d/evidence" VERIF_CHILD_AS_KIB=${VERIF_CHILD_AS_KIB-16777216} bin/vcheck run "$p" 2>/dev/null)
  code=$?
  echo "MUTANT $(basename $patch) suite=$suite check=$p exit=$code $(echo "$out" | grep -c '^VIOLATION') violation lines"
  echo "$out" | grep -A3 '^VIOLATION' | head -8 | cut -c1-300
done
