#!/bin/bash
# usage: tools/runall.sh [quick|thorough] [seed]   — runs every registered check in /verif against /repo
export GOFLAGS=-mod=mod GOPROXY=off GOSUMDB=off GOTOOLCHAIN=local
tier=${1:-quick}; seed=${2:-1}
cd "$(dirname "$0")/.."
for p in C01 C02 C03 C04 C05 C06 C07 C08 C09 C10 C11 C12 C13 C14 C15 C16 C17 C18; do
  s=$(date +%s)
  out=$(VERIF_SEED=$seed bin/vcheck run $p --tier $tier 2>/dev/null); code=$?
  echo "$p exit=$code $(($(date +%s)-s))s :: $(echo "$out" | grep -v '^KNOWN-FINDING' | tail -1 | cut -c1-200)"
  if [ $code -ne 0 ]; then echo "$out" | grep -v '^KNOWN-FINDING' | head -20 | cut -c1-300; fi
done
