#!/usr/bin/env python3
"""Maintenance tool (run by hand, never by a check): merges violation dumps
(VERIF_DUMP_VIOLATIONS=<file> bin/vcheck run Cxx) into known_findings.json for one property.
usage: mkfindings.py <property> <dump.json>... [--replace]
Every entry must have been triaged as a genuine defect of parsyl/parquet before this is run."""
import json, sys, os, re
HERE = os.path.dirname(os.path.dirname(os.path.abspath(__file__)))
prop = sys.argv[1]
files = [a for a in sys.argv[2:] if not a.startswith("--")]
replace = "--replace" in sys.argv
kf_path = os.path.join(HERE, "known_findings.json")
kf = json.load(open(kf_path))
if replace:
    kf["findings"] = [f for f in kf["findings"] if f["property"] != prop]
have = {(f["property"], f["key"]) for f in kf["findings"]}
added = 0
for fn in files:
    for v in json.load(open(fn)) or []:
        if v["prop"] != prop:
            continue
        k = (prop, v["key"])
        if k in have:
            continue
        have.add(k)
        d = v["detail"]
        # one line: drop sources/stacks
        lines = [l.strip() for l in d.split("\n") if l.strip()]
        what = lines[0]
        for l in lines[1:]:
            l = re.sub(r"^[a-z]\d+(v\d+)?/parquet\.go:\d+:\d+: ", "parquet.go: ", l)
            if l.startswith(("parquetgen failed", "parquet.go: ", "case ", "exit status")) or "panic" in l[:40] or "expected" in l[:60]:
                what += " | " + l
            if len(what) > 260:
                break
        what = re.sub(r"/var/tmp/verif-work\.[^/]*/", "", what)[:300]
        kf["findings"].append({"property": prop, "key": v["key"], "what": what})
        added += 1
kf["findings"].sort(key=lambda f: (f["property"], f["key"]))
json.dump(kf, open(kf_path, "w"), indent=1)
print("added", added, "findings for", prop, "- total", len([f for f in kf["findings"] if f["property"] == prop]))
