#!/bin/bash
# usage: tools/runsome.sh <tier> <seed> Cxx [Cxx...]  — like runall.sh for a subset; keeps full output under out/
export GOFLAGS=-mod=mod GOPROXY=off GOSUMDB=off GOTOOLCHAIN=local
tier=$1; seed=$2; shift 2
cd "$(dirname "$0")/.."
[ -x bin/vcheck ] || go build -o bin/vcheck ./cmd/vcheck
mkdir -p out
for p in "$@"; do
  s=$(date +%s)
  VERIF_SEED=$seed VERIF_DUMP_VIOLATIONS=out/$p.$tier.$seed.viol.json bin/vcheck run $p --tier $tier > out/$p.$tier.$seed.out 2>out/$p.$tier.$seed.err; code=$?
  echo "$p tier=$tier seed=$seed exit=$code $(($(date +%s)-s))s :: $(grep -v '^KNOWN-FINDING' out/$p.$tier.$seed.out | tail -1 | cut -c1-200)"
  if [ $code -ne 0 ]; then grep -v '^KNOWN-FINDING' out/$p.$tier.$seed.out | head -12 | cut -c1-300; fi
done
