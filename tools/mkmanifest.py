#!/usr/bin/env python3
"""Regenerates /verif/MANIFEST.json from the table below (kept next to the code so that
claims, commands and DESIGN.md sections stay in step)."""
import json, os, sys

HERE = os.path.dirname(os.path.dirname(os.path.abspath(__file__)))

TRUST = ("Trusted: Go toolchain/runtime, reflect, compress/gzip, golang/snappy, and the reference implementation in /verif/ref "
         "(anchored to the Dremel paper example, Encodings.md and thrift compact-protocol vectors). ")

CHECKS = {
 "C01": dict(cat="exploration", tech="runtime monitor: generated writer+reader driven over generated workloads, read-back compared with pre-Add snapshots (differential round trip)",
   text="Every file of a seed-determined workload (portfolio shapes x structural enumeration / extremes / random / run-structured / boundary lists x partitions x page sizes x 3 codecs) is written through a freshly generated writer with the caller's memory scrambled after Add, read back through the freshly generated reader, and compared record by record (floats by bits) together with Rows(), the Next() count, Error() and scan-time copies. Exploration, not proof: value domains and partitions are sampled.",
   note=TRUST+"Shapes are the fixed portfolio (C05 owns the shape dimension)."),
 "C02": dict(cat="exploration", tech="offline checker over recorded sink bytes: independent Parquet parser cross-checks every footer/header field against the bytes",
   text="Every written file is parsed by an independent parser (own thrift-compact decoder) that evaluates ~25 structural and truthfulness sub-checks (magic, footer, schema tree vs struct, chunk order/paths/types/codec, offsets, contiguity, sizes, value and row counts, page record bound, record-boundary page starts, exact section lengths). Exploration over the same workload as C01 on portfolio P1-P8.",
   note=TRUST+"Validity is judged by the reference parser's reading of parquet-format; no third-party Parquet implementation is installed."),
 "C03": dict(cat="exploration", tech="offline checker: columns decoded by the reference and compared entry-by-entry with a reference Dremel shredder, then reassembled by a reference assembler",
   text="For every file the (rep, def, value) stream of every column, decoded only by the reference, is compared with ref/dremel.Shred of the written records; the reference assembler then rebuilds every record and detects sibling columns that disagree about shared structure. The structural enumeration drives every nil/non-nil x list-length combination per shape.",
   note=TRUST+"The reference shredder/assembler reproduce the Dremel paper's fig. 2/3 tables exactly (ref/dremel test)."),
}

CHECKS.update({
 "C04": dict(cat="exploration", tech="differential reading: an independent reference WRITER emits conformant files with every legal encoding freedom drawn at random; the generated reader's rows are compared with the source records",
   text="Files are produced by ref/pqfile.WriteFile from reference-shredded records, never by the library: level run segmentation (5 styles incl. length-1 RLE runs and >63-group bit-packed runs), per-column page boundaries, per-chunk codec, literal-only vs copy snappy, gzip levels, statistics present/partial/absent, CRC, optional and unknown thrift fields, long-form field headers, opaque bytes before the footer, BIT_PACKED level encoding named on level-less columns. Each file is re-validated by the reference parser and then read by the generated reader. Observation floors require >63-group runs, 2-byte run headers, mixed codecs and per-column page splits to have actually been read.",
   note=TRUST+"Conformance is the reference's reading of parquet-format; zero-length runs and non-zero padding bits are deliberately not generated (the specification is silent)."),
 "C05": dict(cat="translation_validation", tech="translation validation of the code generator: every program of a bounded struct grammar is generated, compiled and validated on its inputs by the C02/C03/C01 runtime monitors",
   text="Each struct shape of the bounded grammar (quick: all 1209 shapes with <=4 schema nodes, depth <=3; thorough: all 9471 with <=5 nodes plus 2000 fixed 6-8 node shapes) is fed to a parquetgen built from the current tree, twice (determinism), compiled, and run on every structurally distinct record (alone, together at page sizes 1/2/1000, in 3 batches) plus seeded random multi-row-group files; the file-validity, striping and round-trip monitors judge each. A failing program is a disagreement identified by (shape signature, failure kind) and matched against known_findings.json; unlisted failures are violations.",
   note=TRUST+"~21% of the <=4-node shapes are broken on the pinned tree (generator defects too large for a fix: commit); they are listed individually in known_findings.json. The shape set is seed-independent; values of the random files are seed-dependent."),
 "C06": dict(cat="exploration", tech="online reference model over call histories: all Add/Write sequences up to a length bound executed against the real writer and compared with a batch-list model (file validity, row groups, striping, read-back)",
   text="All 2^(L+1)-1 histories over {Add, Write} with L<=8 (thorough 12), terminated by Close, x page sizes 1..4 x 3 codecs on two shapes, plus seeded long histories with batches up to 3*page+1. For each, the model says which batches exist; the file must be valid (C02 checker), have exactly one row group per non-empty batch with the batch's striping, and read back as the batches' records.",
   note=TRUST+"Exhaustive only up to the stated history length; the model treats records pending at Close as discarded, as the property states."),
 "C07": dict(cat="exploration", tech="differential encode/decode against a strict specification decoder and a segmentation-parameterised specification encoder, on internal/rle directly and through the public column API",
   text="Encoder: every level sequence up to a length bound per bit width (quick 14/8/5/4 for widths 1-4) plus run-structured sequences around the 8-value, 63-group and multi-byte-header boundaries is encoded by internal/rle and judged by ref/hybrid's strict decoder (length prefix, run headers, value width, padding < 8). Decoder: sequences re-encoded by the reference under all segmentations (short) or six seeded styles (incl. >63-group and 1-value runs) are decoded by internal/rle with trailing bytes present; values, padding and bytes consumed are checked. OptionalField.DoWrite/DoRead repeat both directions in situ.",
   note=TRUST+"The driver module path is nested under the repository's so that internal/rle can be imported unmodified."),
 "C08": dict(cat="fault_enumeration", tech="source wrapper enumerating read-fragmentation patterns; rows/errors compared with the full-read baseline",
   text="For each workload file (portfolio x 3 codecs x single-page/multi-page/multi-row-group) the caller-owned io.ReadSeeker returns short reads: fixed chunks (quick 1..17 and a spread to 4096; thorough every 1..64,127,128,4095,4096), seeded random lengths, data-with-EOF, every k-th call short. Rows and errors must equal the full-read baseline. The monitor records which call sites of the repository received short reads (stack signature) and requires pageData to have been hit for every codec.",
   note=TRUST+"(0, nil) reads are not generated (the io.Reader contract discourages them and the property does not list them)."),
 "C09": dict(cat="fault_enumeration", tech="failing io.Writer wrapper: exhaustive enumeration of the index of the failing sink write per workload, three fault modes",
   text="A fault-free run counts the sink writes N of each workload; every k in 0..N-1 is re-run with write k failing transiently, stickily, or partially (n=len/2 with the error). The API call in progress (labelled by the driver) must return a non-nil error; nothing may panic. Fault sites are classified by stack (magic, page header, required/optional page body, footer, footer length, trailing magic) and all seven must be hit.",
   note=TRUST+"Exhaustive over k per workload; workloads are sampled (portfolio x codecs x 3 layouts)."),
 "C10": dict(cat="fault_enumeration", tech="failing io.ReadSeeker wrapper: exhaustive enumeration of the index of the failing Read/Seek call per file, two fault modes, with and without fragmentation",
   text="A fault-free read counts the source calls N (thousands: thrift reads byte-wise); every k in 0..N-1 is re-run with call k failing as (0, err) or (partial, err), once with a full-read source and once under chunk-7 fragmentation so that faults land inside page bodies. Either an error is reported (constructor or Error()) or the delivered rows are exactly the file's rows; no panic; iteration is bounded by a logical cap.",
   note=TRUST+"Calling Next again after it returned false is outside the statement and not driven."),
 "C11": dict(cat="fault_enumeration", tech="crash-point enumeration: every strict prefix of each workload file is opened and iterated",
   text="Every prefix length 0..len-1 of 54 files (quick; 0.3-12 KiB) is handed to the generated reader; it must report an error and must not panic. Thorough adds 20-60 KiB files with every cut in the last 4 KiB, every page boundary +-8 bytes and 1500 seeded interior cuts. Cuts are classified with the reference parser (footer, length, magic, page header, page body, page boundary, between row groups) and all classes must be seen.",
   note=TRUST+"Assumes string values never embed a complete Parquet file."),
 "C12": dict(cat="exploration", tech="offline checker: page Statistics compared with values and levels decoded by the reference, in the column's order",
   text="Files from P1/P2/P8 with value multisets aimed at accumulator bugs; every page's null_count must equal the number of entries below the maximum definition level and every present min/max (deprecated and _value pairs) must bound all non-null non-NaN values in signed, unsigned (UINT_32/64), IEEE or bytewise order; bounds must be absent on pages without values. Floors: every (type x required/optional/repeated) cell must have shown min/max; all-null, NaN and sentinel pages must have been seen.",
   note=TRUST),
 "C13": dict(cat="exploration", tech="Go race detector over concurrent independent instances with injected yields, plus a shadow allocator replacing bytebufferpool (poison/quarantine), plus differential outputs against sequential references",
   text="Three run families over the same histories: (1) each history re-run after different polluter prefixes must give identical bytes/rows; (2) a -race build with the real pool runs G goroutines over their own instances with Gosched/sleep injected at sink writes, outputs compared with sequential references and race reports counted from the GORACE log; (3) the same against instr/bytebufferpool, which poisons released buffers, quarantines them, verifies the poison on reuse and hands buffers out with poisoned spare capacity. Evidence reports instances in flight, goroutine switches between sink writes, cross-goroutine buffer hand-overs.",
   note=TRUST+"Schedules are sampled; the race detector sees only races that occur in a run. The early-Put mutant is caught by all three families."),
 "C14": dict(cat="translation_validation", tech="metamorphic translation validation: decorated struct definitions must generate code whose files are byte-identical to the base's",
   text="For base shapes without C05 findings, variants with an excluded field (16 forms) inserted at any position/nesting level, with a field at every position, and with a run of sibling fields moved into an embedded struct are generated and compiled; for the same records the variant's files must be byte-identical to the base's in three configurations, excluded fields (filled with junk before Add) must be zero after reading into a fresh struct, and values must read back.",
   note=TRUST+"Bases are bounded (<=4 nodes quick, <=5 thorough); embedding inside optional/repeated groups is a listed finding (D13)."),
 "C15": dict(cat="translation_validation", tech="three-stage pipeline validation: write with generated code, regenerate struct+reader with parquetgen -parquet, read back and compare by reflection and by value",
   text="Every non-repeated shape with <=4 nodes (quick) is written by its generated writer; parquetgen -parquet regenerates a struct and reader from the file; the regenerated struct must have the same column paths, nesting, optionality and physical types (reflection under the README mapping) and its reader must return exactly the written values from three files per shape.",
   note=TRUST+"Shapes whose structure C05 lists as broken are skipped (their failure is C05's)."),
 "C16": dict(cat="exploration", tech="differential introspection: ReadMetaData/PageHeaders/PageHeadersAtOffset converted to field-id trees by reflection and compared with an independent thrift decode and page walk",
   text="On library-written files and on foreign files from the reference writer (optional and unknown metadata present), the footer returned by ReadMetaData must equal the reference decode (restricted to field ids the repository's schema knows), PageHeaders must return exactly one header per data page in file order, and PageHeadersAtOffset(chunk start, n) must return the chunk's headers (one header for n=0).",
   note=TRUST),
 "C17": dict(cat="exploration", tech="exhaustive enumeration of the finite domain against a bit-at-a-time reference packer, for the checked-in package and a freshly generated one, plus in-situ groups through the column API",
   text="All 2^8+4^8+8^8 tuples (and all 16^8 for width 4 in thorough; quick: all tuples with any 4 positions free over 16 values, rest in {0,15}) are packed by internal/bitpack and by a package freshly generated with cmd/bitpackgen from the current tree, compared with the LSB-first layout and unpacked; all w-byte groups are unpacked, compared and re-packed. Level sequences written/read through OptionalField.DoWrite/DoRead are unpacked by the reference.",
   note=TRUST+"exhaustive: true only in the thorough tier (width 4 complete)."),
 "C18": dict(cat="exploration", tech="hostile-input exploration: otherwise valid carrier files from the reference writer with one really-encoded unsupported feature per file; the reader must refuse",
   text="For every column of the portfolio shapes and every applicable feature (dictionary page + RLE_DICTIONARY/PLAIN_DICTIONARY, dictionary page then plain pages, index page, data page v2, DELTA_BINARY_PACKED, DELTA_LENGTH_BYTE_ARRAY, DELTA_BYTE_ARRAY, BYTE_STREAM_SPLIT, RLE booleans, BIT_PACKED definition/repetition levels, LZO/BROTLI/LZ4/ZSTD/LZ4_RAW) placed in first/middle/last pages of first/later row groups, the generated reader must report an error and not panic.",
   note=TRUST+"LZO bodies are opaque (rejection must come from the metadata); the other payloads are valid encodings written from their specifications."),
})

NOT_YET = {}

def main():
    props = [json.loads(l) for l in open(os.path.join(HERE, "properties.jsonl"))]
    checks = []
    na = []
    for p in props:
        pid = p["id"]
        if pid in CHECKS:
            c = CHECKS[pid]
            checks.append({
                "property_id": pid,
                "quick_cmd": f"bin/vcheck run {pid} --tier quick",
                "thorough_cmd": f"bin/vcheck run {pid} --tier thorough",
                "evidence_file": f"/verif/evidence/{pid}.json",
                "replay_cmd_template": "bin/vcheck replay {path}",
                "engine": "vcheck",
                "level_claimed": {"category": c["cat"], "text": c["text"], "design_ref": f"DESIGN.md §3 {pid}"},
                "level_note": c["note"],
                "technique": c["tech"],
            })
        else:
            na.append({"property_id": pid, "reason": NOT_YET.get(pid, "check not built yet in this tree (runtime-monitoring design in DESIGN.md §3 " + pid + "); not claimed until its monitor exists and is silent on the unchanged tree")})
    m = {
        "version": 1,
        "setup_cmd": "GOFLAGS=-mod=mod GOPROXY=off GOSUMDB=off GOTOOLCHAIN=local go build -o bin/vcheck ./cmd/vcheck && GOFLAGS=-mod=mod GOPROXY=off GOSUMDB=off GOTOOLCHAIN=local go test ./ref/... && bin/vcheck warm",
        "hooks": {
            "guard": "verif",
            "enable": "none needed: monitors sit at boundaries the caller owns (sink, source, generated package scope, bytebufferpool module replaced in the scratch module); no file under /repo carries the tag",
            "baseline_off_cmd": "cd /repo && go test -vet=off -count=1 ./...",
            "source_commits": [],
            "add_only": True,
        },
        "engines": [{"name": "vcheck", "path": "/verif/cmd/vcheck", "serves_properties": [c["property_id"] for c in checks],
                     "kind_free_text": "orchestrator: regenerates code with a parquetgen built from the current tree, builds driver binaries (drv/ monitors + ref/ oracle), runs them as child processes, merges observations, applies known_findings.json, writes evidence"}],
        "checks": checks,
        "not_applicable": na,
        "notes": "Exit codes: 0 held on everything explored, 1 VIOLATION, 2 INCONCLUSIVE (observation floor not met / watchdog). VERIF_SEED and VERIF_TIER are honoured. See DESIGN.md.",
    }
    json.dump(m, open(os.path.join(HERE, "MANIFEST.json"), "w"), indent=1)
    print("wrote MANIFEST.json:", len(checks), "checks,", len(na), "not claimed")

if __name__ == "__main__":
    main()
