#!/usr/bin/env python3
"""Regenerates /verif/MANIFEST.json from the table below (kept next to the code so that
claims, commands and DESIGN.md sections stay in step)."""
import json, os, sys

HERE = os.path.dirname(os.path.dirname(os.path.abspath(__file__)))

TRUST = ("Trusted: Go toolchain/runtime, reflect, compress/gzip, golang/snappy, and the reference implementation in /verif/ref "
         "(anchored to the Dremel paper example, Encodings.md and thrift compact-protocol vectors). ")

CHECKS = {
 "C01": dict(cat="exploration", tech="runtime monitor: generated writer+reader driven over generated workloads, read-back compared with pre-Add snapshots (differential round trip)",
   text="Every file of a seed-determined workload (portfolio shapes x structural enumeration / extremes / random / run-structured / boundary lists x partitions x page sizes x 3 codecs) is written through a freshly generated writer with the caller's memory scrambled after Add, read back through the freshly generated reader, and compared record by record (floats by bits) together with Rows(), the Next() count, Error() and scan-time copies. Exploration, not proof: value domains and partitions are sampled.",
   note=TRUST+"Shapes are the fixed portfolio (C05 owns the shape dimension)."),
 "C02": dict(cat="exploration", tech="offline checker over recorded sink bytes: independent Parquet parser cross-checks every footer/header field against the bytes",
   text="Every written file is parsed by an independent parser (own thrift-compact decoder) that evaluates ~25 structural and truthfulness sub-checks (magic, footer, schema tree vs struct, chunk order/paths/types/codec, offsets, contiguity, sizes, value and row counts, page record bound, record-boundary page starts, exact section lengths). Exploration over the same workload as C01 on portfolio P1-P8.",
   note=TRUST+"Validity is judged by the reference parser's reading of parquet-format; no third-party Parquet implementation is installed."),
 "C03": dict(cat="exploration", tech="offline checker: columns decoded by the reference and compared entry-by-entry with a reference Dremel shredder, then reassembled by a reference assembler",
   text="For every file the (rep, def, value) stream of every column, decoded only by the reference, is compared with ref/dremel.Shred of the written records; the reference assembler then rebuilds every record and detects sibling columns that disagree about shared structure. The structural enumeration drives every nil/non-nil x list-length combination per shape.",
   note=TRUST+"The reference shredder/assembler reproduce the Dremel paper's fig. 2/3 tables exactly (ref/dremel test)."),
}

NOT_YET = {}

def main():
    props = [json.loads(l) for l in open(os.path.join(HERE, "properties.jsonl"))]
    checks = []
    na = []
    for p in props:
        pid = p["id"]
        if pid in CHECKS:
            c = CHECKS[pid]
            checks.append({
                "property_id": pid,
                "quick_cmd": f"bin/vcheck run {pid} --tier quick",
                "thorough_cmd": f"bin/vcheck run {pid} --tier thorough",
                "evidence_file": f"/verif/evidence/{pid}.json",
                "replay_cmd_template": "bin/vcheck replay {path}",
                "engine": "vcheck",
                "level_claimed": {"category": c["cat"], "text": c["text"], "design_ref": f"DESIGN.md §3 {pid}"},
                "level_note": c["note"],
                "technique": c["tech"],
            })
        else:
            na.append({"property_id": pid, "reason": NOT_YET.get(pid, "check not built yet in this tree (runtime-monitoring design in DESIGN.md §3 " + pid + "); not claimed until its monitor exists and is silent on the unchanged tree")})
    m = {
        "version": 1,
        "setup_cmd": "GOFLAGS=-mod=mod GOPROXY=off GOSUMDB=off GOTOOLCHAIN=local go build -o bin/vcheck ./cmd/vcheck && bin/vcheck warm",
        "hooks": {
            "guard": "verif",
            "enable": "none needed: monitors sit at boundaries the caller owns (sink, source, generated package scope, bytebufferpool module replaced in the scratch module); no file under /repo carries the tag",
            "baseline_off_cmd": "cd /repo && go test -vet=off -count=1 ./...",
            "source_commits": [],
            "add_only": True,
        },
        "engines": [{"name": "vcheck", "path": "/verif/cmd/vcheck", "serves_properties": [c["property_id"] for c in checks],
                     "kind_free_text": "orchestrator: regenerates code with a parquetgen built from the current tree, builds driver binaries (drv/ monitors + ref/ oracle), runs them as child processes, merges observations, applies known_findings.json, writes evidence"}],
        "checks": checks,
        "not_applicable": na,
        "notes": "Exit codes: 0 held on everything explored, 1 VIOLATION, 2 INCONCLUSIVE (observation floor not met / watchdog). VERIF_SEED and VERIF_TIER are honoured. See DESIGN.md.",
    }
    json.dump(m, open(os.path.join(HERE, "MANIFEST.json"), "w"), indent=1)
    print("wrote MANIFEST.json:", len(checks), "checks,", len(na), "not claimed")

if __name__ == "__main__":
    main()
