#!/usr/bin/env python3
"""Rewrites the seeded-change table of DESIGN.md section 8.5 from seeded/*/meta.json."""
import json, glob, os
HERE = os.path.dirname(os.path.dirname(os.path.abspath(__file__)))
p = os.path.join(HERE, "DESIGN.md")
lines = open(p).read().split("\n")
start = next(i for i, l in enumerate(lines) if l.startswith("| change | needs | passes repo suite | caught by |"))
end = start + 2
while end < len(lines) and lines[end].startswith("|"):
    end += 1
rows = [lines[start + 2]]  # the hand-written selftest row stays first
for m in sorted(glob.glob(os.path.join(HERE, "seeded", "*", "meta.json"))):
    m = json.load(open(m))
    cell = "; ".join(f"**{c}** {v}" for c, v in m["checks_run"].items())
    rows.append(f"| `seeded/{m['id']}` ({m['breaks_property']}): {m['what']} | {m['needs_to_manifest']} | yes | {cell} |")
lines[start + 2:end] = rows
open(p, "w").write("\n".join(lines))
print(len(rows) - 1, "seeded changes in the table")
