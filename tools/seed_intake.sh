#!/bin/bash
# usage: tools/seed_intake.sh <worktree-id e.g. C07a> <property> 
# Confirms a sub-agent's seeded change in its scratch worktree (/tmp/mut/<id>): the repository
# suite passes with the change, demo/run.sh fails with it and passes without it; then stores
# patch.diff, the demonstration and meta.json (facts only) under /verif/seeded/<id>/.
set -u
export GOFLAGS=-mod=mod GOPROXY=off GOSUMDB=off GOTOOLCHAIN=local
id=$1; prop=$2
wt=/tmp/mut/$id
kit=$(cd "$(dirname "$0")/.." && pwd)
cd $wt || exit 3
[ -f MUTANT.diff ] || { echo "no MUTANT.diff"; exit 3; }
# state: change applied?
if git apply --check -R MUTANT.diff 2>/dev/null; then :; else echo "worktree does not have the change applied; applying"; git checkout -q -- . ; git apply MUTANT.diff || exit 3; fi
build=fail; go build ./... >/dev/null 2>&1 && build=ok
suite=FAILS; go test -vet=off -count=1 $(go list ./... | grep -v "/demo") > /tmp/mut/$id.suite.log 2>&1 && suite=passes
chmod +x demo/run.sh 2>/dev/null
(cd demo && timeout 600 ./run.sh > /tmp/mut/$id.with.log 2>&1); with=$?
git apply -R MUTANT.diff || exit 3
(cd demo && timeout 600 ./run.sh > /tmp/mut/$id.without.log 2>&1); without=$?
git apply MUTANT.diff
echo "id=$id build=$build suite=$suite demo_with_change_exit=$with demo_without_change_exit=$without"
if [ "$build" = ok ] && [ "$suite" = passes ] && [ $with -ne 0 ] && [ $without -eq 0 ]; then
  d=$kit/seeded/$id; rm -rf $d; mkdir -p $d
  cp MUTANT.diff $d/patch.diff
  rsync -a --exclude 'parquetgen' --exclude '*.parquet' --exclude 'bin/' demo/ $d/demo/
  # drop build products from the demo copy
  find $d/demo -type f -size +2000k -delete
  python3 - "$id" "$prop" "$with" "$without" <<'PY'
import json,sys,os
id,prop,w,wo=sys.argv[1:5]
d=f"/verif/seeded/{id}"
meta={"id":id,"breaks_property":prop,"origin":"sub-agent given only the property text and a scratch worktree",
 "confirmed":{"builds":True,"repository_suite_passes_with_change":True,"demo_exit_with_change":int(w),"demo_exit_without_change":int(wo),
   "demo_output_with_change_tail":open(f"/tmp/mut/{id}.with.log").read()[-1200:]},
 "needs_to_manifest":"", "what":"", "checks_run":{}}
json.dump(meta,open(d+"/meta.json","w"),indent=1)
PY
  echo "stored in $d"
else
  echo "NOT CONFIRMED"; tail -5 /tmp/mut/$id.with.log; tail -5 /tmp/mut/$id.without.log
fi
