#!/usr/bin/env python3
"""Writes selftest/mutants/*.patch: realistic property-breaking edits of /repo (the M lists of
DESIGN.md section 3) plus the reverse of every fix: commit. Each entry: name, file, old, new,
checks expected to catch it. Run from anywhere; /repo is only read."""
import os, subprocess, difflib, json, sys
HERE = os.path.dirname(os.path.abspath(__file__))
OUT = os.path.join(HERE, "mutants")
os.makedirs(OUT, exist_ok=True)
REPO = "/repo"

M = [
 # name, file, old, new, expected checks
 ("c02-page-max-off-by-one", "cmd/parquetgen/gen/template.go", "	if p.len == p.max {\n		if p.child == nil {", "	if p.len > p.max {\n		if p.child == nil {", ["C02"]),
 ("c01-bool-bit-index", "cmd/parquetgen/gen/template_bool.go", "rawBuf[i/8] = rawBuf[i/8] | (1 << uint32(i%8))", "rawBuf[i/8] = rawBuf[i/8] | (1 << uint32(i%7))", ["C01"]),
 ("c02-uncompressed-size-without-header", "parquet.go", "err := rg.updateColumnChunk(pth, dataLen+headerLen, compressedLen+headerLen, count, m.schema, comp)", "err := rg.updateColumnChunk(pth, dataLen, compressedLen+headerLen, count, m.schema, comp)", ["C02"]),
 ("c06-keep-empty-row-groups", "parquet.go", "		if rg.NumRows == 0 {\n			continue\n		}\n", "", ["C06", "C02"]),
 ("c04-bitpacked-count-low-byte", "internal/rle/rle.go", "	count := (int(header) >> 1) * 8\n", "	count := (int(header&0xff) >> 1) * 8\n", ["C04", "C07"]),
 ("c07-leb128-third-byte", "internal/rle/rle.go", "		shift += 7\n	}\n}", "		shift += 7\n		if shift > 7 {\n			shift++\n		}\n	}\n}", ["C07"]),
 ("c07-groupcount-gt-63", "internal/rle/rle.go", "	if r.groupCount >= 63 {", "	if r.groupCount > 63 {", ["C07", "C01"]),
 ("c07-repeatcount-gt-8", "internal/rle/rle.go", "		if r.repeatCount >= 8 {\n			return\n		}", "		if r.repeatCount > 8 {\n			return\n		}", ["C07"]),
 ("c09-page-header-write-error-dropped", "parquet.go", "	_, err = w.Write(buf)\n	return err\n}\n\nfunc (m *Metadata) updateRowGroup", "	w.Write(buf)\n	return nil\n}\n\nfunc (m *Metadata) updateRowGroup", ["C09"]),
 ("c09-trailing-magic-error-dropped", "cmd/parquetgen/gen/template.go", "	_, err := p.w.Write(par1)\n	return err\n}\n\nfunc (p *ParquetWriter) Add", "	p.w.Write(par1)\n	return nil\n}\n\nfunc (p *ParquetWriter) Add", ["C09"]),
 ("c09-footer-length-error-dropped", "parquet.go", "	return binary.Write(w, binary.LittleEndian, uint32(n))\n}", "	binary.Write(w, binary.LittleEndian, uint32(n))\n	return nil\n}", ["C09"]),
 ("c10-next-ignores-rowgroup-error", "cmd/parquetgen/gen/template.go", "		p.err = p.readRowGroup()\n		if p.err != nil {\n			return false\n		}", "		p.readRowGroup()", ["C10", "C11"]),
 ("c10-pagedata-ignores-read-error", "fields.go", "		if _, err := io.ReadFull(r, data); err != nil {\n			return nil, err\n		}", "		io.ReadFull(r, data)", ["C10"]),
 ("c11-footer-decode-error-ignored", "parquet.go", "	m := sch.NewFileMetaData()\n	return m, m.Read(context.TODO(), p)", "	m := sch.NewFileMetaData()\n	m.Read(context.TODO(), p)\n	return m, nil", ["C11", "C10"]),
 ("c12-optional-stats-index-skew", "cmd/parquetgen/gen/template_optional.go", "			val := vals[i]\n			i++\n", "			val := vals[i]\n", ["C12"]),
 ("c12-nullcount-predicate", "cmd/parquetgen/gen/template_string_optional.go", "		if def < s.maxDef {\n			s.nils++", "		if def == 0 {\n			s.nils++", ["C12"]),
 ("c13-shared-scratch-in-string-writer", "cmd/parquetgen/gen/template_string.go", "	bs := make([]byte, 4)\n	for _, s := range f.vals {\n		binary.LittleEndian.PutUint32(bs, uint32(len(s)))", "	bs := lenScratch[:]\n	for _, s := range f.vals {\n		binary.LittleEndian.PutUint32(bs, uint32(len(s)))", ["C13"]),
 ("c14-embedded-children-appended-last", "cmd/parquetgen/parse/parse.go", "		if child.Embedded {\n			for _, ch := range f.Children {\n				children = append(children, ch)\n			}\n		} else {\n			children = append(children, f)\n		}\n	}\n	parent.Children = children", "		if child.Embedded {\n			for _, ch := range f.Children {\n				tail = append(tail, ch)\n			}\n		} else {\n			children = append(children, f)\n		}\n	}\n	parent.Children = append(children, tail...)", ["C14"]),
 ("c15-float-regenerated-as-float64", "cmd/parquetgen/structs/structs.go", '	"FLOAT":      "float32",', '	"FLOAT":      "float64",', ["C15"]),
 ("c15-optional-group-loses-pointer", "cmd/parquetgen/structs/structs.go", "	if elem.RepetitionType != nil && *elem.RepetitionType == sch.FieldRepetitionType_OPTIONAL {\n		ptr = \"*\"", "	if elem.Type != nil && elem.RepetitionType != nil && *elem.RepetitionType == sch.FieldRepetitionType_OPTIONAL {\n		ptr = \"*\"", ["C15"]),
 ("c16-seek-by-uncompressed-size", "parquet.go", "		_, err = r.Seek(int64(ph.CompressedPageSize), io.SeekCurrent)", "		_, err = r.Seek(int64(ph.UncompressedPageSize), io.SeekCurrent)", ["C16"]),
 ("c16-pageheaders-from-file-offset", "parquet.go", "			h, err := PageHeadersAtOffset(r, col.MetaData.DataPageOffset, col.MetaData.NumValues)", "			h, err := PageHeadersAtOffset(r, col.FileOffset, col.MetaData.NumValues)", ["C16"]),
 ("c17-unpack4-mask", "internal/bitpack/bitpack.go", "		(uint8(vals[2]&240) >> 4),\n		(uint8(vals[3]&15) >> 0),", "		(uint8(vals[2]&224) >> 4),\n		(uint8(vals[3]&15) >> 0),", ["C17", "C07"]),
 ("c17-bitpackgen-template", "cmd/bitpackgen/main.go", None, None, ["C17"]),
 ("c18-encoding-check-dropped", "fields.go", "	if e := ph.DataPageHeader.Encoding; e != sch.Encoding_PLAIN {\n		return fmt.Errorf(\"unsupported encoding: %s\", e)\n	}\n", "", ["C18"]),
 ("c18-plain-dictionary-accepted", "fields.go", "	if e := ph.DataPageHeader.Encoding; e != sch.Encoding_PLAIN {", "	if e := ph.DataPageHeader.Encoding; e != sch.Encoding_PLAIN && e != sch.Encoding_PLAIN_DICTIONARY {", ["C18"]),
 ("c18-replevel-check-on-defs-flag", "fields.go", "	if e := ph.DataPageHeader.RepetitionLevelEncoding; reps && e != sch.Encoding_RLE {", "	if e := ph.DataPageHeader.RepetitionLevelEncoding; !defs && e != sch.Encoding_RLE {", ["C18", "C04"]),
 ("c03-maxdef-ignores-repeated", "fields.go", "		if rt == Optional || rt == Repeated {\n			out++", "		if rt == Optional {\n			out++", ["C03", "C01"]),
 ("c01-string-read-short-on-long-values", "cmd/parquetgen/gen/template_string.go", "		var x int32\n		if err := binary.Read(rr, binary.LittleEndian, &x); err != nil {", "		var x int16\n		var hi int16\n		if err := binary.Read(rr, binary.LittleEndian, &x); err != nil {\n			return err\n		}\n		if err := binary.Read(rr, binary.LittleEndian, &hi); err != nil {", ["C01"]),
]

extra_decl = {
 "c13-shared-scratch-in-string-writer": ("cmd/parquetgen/gen/template_string.go", "func (f *StringField) Write(w io.Writer, meta *parquet.Metadata) error {", "var lenScratch [4]byte\n\nfunc (f *StringField) Write(w io.Writer, meta *parquet.Metadata) error {"),
 "c14-embedded-children-appended-last": ("cmd/parquetgen/parse/parse.go", "	var children []flds.Field\n	var errs []error\n	p, ok := fields[parent.Type]", "	var children, tail []flds.Field\n	var errs []error\n	p, ok := fields[parent.Type]"),
}

def unified(path, a, b):
    return "".join(difflib.unified_diff(a.splitlines(True), b.splitlines(True), "a/" + path, "b/" + path))

meta = {}
for name, path, old, new, checks in M:
    if old is None:
        continue
    src = open(os.path.join(REPO, path)).read()
    if src.count(old) != 1:
        print("SKIP", name, ": pattern occurs", src.count(old), "times in", path)
        continue
    out = src.replace(old, new)
    if name in extra_decl:
        p2, o2, n2 = extra_decl[name]
        assert p2 == path and out.count(o2) == 1, name
        out = out.replace(o2, n2)
    open(os.path.join(OUT, name + ".patch"), "w").write(unified(path, src, out))
    meta[name] = {"file": path, "expected": checks}

# the reverse of every fix: commit
log = subprocess.check_output(["git", "-C", REPO, "log", "--format=%h %s"]).decode().splitlines()
for l in log:
    sha, subj = l.split(" ", 1)
    if not subj.startswith("fix:"):
        continue
    diff = subprocess.check_output(["git", "-C", REPO, "diff", sha, sha + "^"]).decode()
    name = "revert-" + sha
    open(os.path.join(OUT, name + ".patch"), "w").write(diff)
    meta[name] = {"file": "(revert of) " + subj, "expected": []}
json.dump(meta, open(os.path.join(HERE, "mutants.json"), "w"), indent=1)
print(len(meta), "mutants written")
