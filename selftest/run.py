#!/usr/bin/env python3
"""Runs the self-test mutants: for each patch, tools/mutant.sh applies it to a scratch copy of
/repo, checks that the repository's own suite still passes, and runs the expected quick checks
against the copy. Results go to selftest/results.json (a mutant is 'caught' if at least one
check exits 1 with a VIOLATION line).
usage: selftest/run.py [name-substring ...]"""
import json, os, subprocess, sys, re
HERE = os.path.dirname(os.path.abspath(__file__))
KIT = os.path.dirname(HERE)
meta = json.load(open(os.path.join(HERE, "mutants.json")))
REVERT = {"NaN": ["C01"], "schema is a proper tree": ["C02", "C15"], "total_byte_size": ["C02"], "Write with nothing pending": ["C06"], "num_rows": ["C06"],
          "read whole page bodies": ["C08"], "string statistics": ["C12"], "reject pages": ["C18"], "are not columns": ["C14"], "only bool fields": ["C05"]}
sel = sys.argv[1:]
res_path = os.path.join(HERE, "results.json")
results = json.load(open(res_path)) if os.path.exists(res_path) else {}
for name, m in sorted(meta.items()):
    if sel and not any(s in name for s in sel):
        continue
    checks = m["expected"]
    if not checks:
        for k, v in REVERT.items():
            if k in m["file"]:
                checks = v
    out = subprocess.run([os.path.join(KIT, "tools", "mutant.sh"), os.path.join(HERE, "mutants", name + ".patch")] + checks, capture_output=True, text=True).stdout
    r = {"file": m["file"], "checks": {}, "suite": None}
    for line in out.splitlines():
        mm = re.match(r"MUTANT \S+ suite=(\S+) check=(\S+) exit=(\d+) (\d+) violation", line)
        if mm:
            r["suite"] = mm.group(1)
            r["checks"][mm.group(2)] = {"exit": int(mm.group(3)), "violation_lines": int(mm.group(4))}
        elif line.startswith("MUTANT"):
            r["note"] = line
    r["caught_by"] = [c for c, v in r["checks"].items() if v["exit"] == 1 and v["violation_lines"] > 0]
    first = [l for l in out.splitlines() if l.strip().startswith("key:")]
    r["first_key"] = first[0].strip() if first else ""
    results[name] = r
    json.dump(results, open(res_path, "w"), indent=1)
    print(name, "suite=%s" % r["suite"], "caught_by=%s" % r["caught_by"], "missed_by=%s" % [c for c in r["checks"] if c not in r["caught_by"]], r.get("note", ""), flush=True)
