// Package bytebufferpool is an API-compatible, clean-room stand-in for
// github.com/valyala/bytebufferpool used only by the C13 check. It is a
// shadow allocator: every buffer has an identity and a state, released
// buffers are poisoned over their whole capacity and quarantined before LIFO
// reuse, the poison is verified when a buffer is handed out again, and
// buffers are handed out with poison in their spare capacity so that stale
// content becomes visible in the output.
//
// The observations are published through expvar ("verif_shadow_pool") so that
// the driver does not need a compile-time dependency on this package.
package bytebufferpool

import (
	"bytes"
	"expvar"
	"fmt"
	"io"
	"runtime"
	"sync"
)

const poison = 0xDB

// ByteBuffer mirrors the original's exported surface.
type ByteBuffer struct {
	B []byte

	id    uint64
	free  bool
	owner uint64 // goroutine that last held it
	whole []byte // full-capacity view at the time of Put (to verify the poison)
}

func (b *ByteBuffer) Len() int { return len(b.B) }

func (b *ByteBuffer) ReadFrom(r io.Reader) (int64, error) {
	var bb bytes.Buffer
	n, err := bb.ReadFrom(r)
	b.B = append(b.B, bb.Bytes()...)
	return n, err
}

func (b *ByteBuffer) WriteTo(w io.Writer) (int64, error) {
	n, err := w.Write(b.B)
	return int64(n), err
}

func (b *ByteBuffer) Bytes() []byte { return b.B }

func (b *ByteBuffer) Write(p []byte) (int, error) {
	b.B = append(b.B, p...)
	return len(p), nil
}

func (b *ByteBuffer) WriteByte(c byte) error {
	b.B = append(b.B, c)
	return nil
}

func (b *ByteBuffer) WriteString(s string) (int, error) {
	b.B = append(b.B, s...)
	return len(s), nil
}

func (b *ByteBuffer) Set(p []byte) { b.B = append(b.B[:0], p...) }

func (b *ByteBuffer) SetString(s string) { b.B = append(b.B[:0], s...) }

func (b *ByteBuffer) String() string { return string(b.B) }

func (b *ByteBuffer) Reset() { b.B = b.B[:0] }

// Pool mirrors the original: the zero value is ready to use.
type Pool struct {
	mu         sync.Mutex
	quarantine []*ByteBuffer
	freeList   []*ByteBuffer
	registered bool
}

var defaultPool Pool

func Get() *ByteBuffer  { return defaultPool.Get() }
func Put(b *ByteBuffer) { defaultPool.Put(b) }

// global monitor state
var mon struct {
	sync.Mutex
	nextID     uint64
	gets, puts int64
	handovers  int64 // a buffer released by one goroutine was handed to another
	reuses     int64
	violations []string
	live       map[uint64]bool
}

func init() {
	mon.live = map[uint64]bool{}
	expvar.Publish("verif_shadow_pool", expvar.Func(func() interface{} { return Report() }))
}

func violate(format string, a ...interface{}) {
	mon.Lock()
	if len(mon.violations) < 50 {
		mon.violations = append(mon.violations, fmt.Sprintf(format, a...))
	}
	mon.Unlock()
}

func gid() uint64 {
	var buf [64]byte
	n := runtime.Stack(buf[:], false)
	// "goroutine 123 ["
	var id uint64
	for _, c := range buf[len("goroutine "):n] {
		if c < '0' || c > '9' {
			break
		}
		id = id*10 + uint64(c-'0')
	}
	return id
}

const quarantineLen = 3

func (p *Pool) Get() *ByteBuffer {
	g := gid()
	p.mu.Lock()
	var b *ByteBuffer
	if n := len(p.freeList); n > 0 {
		b = p.freeList[n-1]
		p.freeList = p.freeList[:n-1]
	}
	p.mu.Unlock()
	mon.Lock()
	mon.gets++
	mon.Unlock()
	if b == nil {
		mon.Lock()
		mon.nextID++
		id := mon.nextID
		mon.live[id] = true
		mon.Unlock()
		// fresh buffers also carry poison in their spare capacity
		w := make([]byte, 64)
		for i := range w {
			w[i] = poison
		}
		return &ByteBuffer{B: w[:0], id: id, owner: g}
	}
	// verify the poison written at Put time
	for i, c := range b.whole {
		if c != poison {
			violate("buffer #%d was written after it had been returned to the pool (byte %d of %d is %#x)", b.id, i, len(b.whole), c)
			break
		}
	}
	if !b.free {
		violate("buffer #%d on the free list is not marked free", b.id)
	}
	mon.Lock()
	mon.reuses++
	if b.owner != g {
		mon.handovers++
	}
	mon.live[b.id] = true
	mon.Unlock()
	b.free = false
	b.owner = g
	b.B = b.whole[:0]
	b.whole = nil
	runtime.Gosched()
	return b
}

func (p *Pool) Put(b *ByteBuffer) {
	if b == nil {
		return
	}
	mon.Lock()
	mon.puts++
	if b.id == 0 {
		mon.nextID++
		b.id = mon.nextID
	}
	delete(mon.live, b.id)
	mon.Unlock()
	if b.free {
		violate("buffer #%d was returned to the pool twice", b.id)
		return
	}
	whole := b.B[:cap(b.B)]
	for i := range whole {
		whole[i] = poison
	}
	b.whole = whole
	b.B = whole[:0]
	b.free = true
	b.owner = gid()
	p.mu.Lock()
	if !p.registered {
		p.registered = true
		pools.Lock()
		pools.all = append(pools.all, p)
		pools.Unlock()
	}
	p.quarantine = append(p.quarantine, b)
	if len(p.quarantine) > quarantineLen {
		p.freeList = append(p.freeList, p.quarantine[0])
		p.quarantine = p.quarantine[1:]
	}
	p.mu.Unlock()
	runtime.Gosched()
}

// ShadowReport is what the monitor observed.
type ShadowReport struct {
	Gets, Puts, Reuses, Handovers int64
	Live                          int
	Violations                    []string
}

// Sweep verifies the poison of every buffer currently held by p.
func (p *Pool) sweep() {
	p.mu.Lock()
	all := append(append([]*ByteBuffer{}, p.quarantine...), p.freeList...)
	p.mu.Unlock()
	for _, b := range all {
		for i, c := range b.whole {
			if c != poison {
				violate("buffer #%d was written after it had been returned to the pool (byte %d of %d is %#x, found at sweep)", b.id, i, len(b.whole), c)
				break
			}
		}
	}
}

var pools struct {
	sync.Mutex
	all []*Pool
}

// Report sweeps every pool that has been used (pools register themselves on
// first Put) and returns the observations so far.
func Report() ShadowReport {
	pools.Lock()
	all := append([]*Pool{}, pools.all...)
	pools.Unlock()
	for _, p := range all {
		p.sweep()
	}
	mon.Lock()
	defer mon.Unlock()
	return ShadowReport{Gets: mon.gets, Puts: mon.puts, Reuses: mon.reuses, Handovers: mon.handovers, Live: len(mon.live), Violations: append([]string{}, mon.violations...)}
}
