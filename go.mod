module github.com/parsyl/parquet/verifkit

go 1.20

require (
	github.com/golang/snappy v0.0.2
	github.com/parsyl/parquet v0.0.0
	github.com/valyala/bytebufferpool v1.0.0
)

require github.com/apache/thrift v0.18.1 // indirect

replace github.com/parsyl/parquet => /repo
