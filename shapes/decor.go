package shapes

import (
	"fmt"
	"strings"
)

// StructDecl is one struct type of an emitted shape, kept as field lines so
// that decorations can be applied before rendering.
type StructDecl struct {
	Name   string
	Fields []string
	// Context is the repetition context of the struct: "root", or the
	// repetition (0/1/2) of the group field that uses it, prefixed by the
	// context of its parent, e.g. "root/2/0".
	Context string
}

// Decls is Source split into declarations.
func Decls(forest []*Node, o EmitOpts) []StructDecl {
	prims := o.Prims
	if prims == nil {
		prims = primNames
	}
	var decls []StructDecl
	leafNo, groupNo := 0, 0
	var emit func(name, ctx string, kids []*Node)
	emit = func(name, ctx string, kids []*Node) {
		d := StructDecl{Name: name, Context: ctx}
		type pending struct {
			name, ctx string
			kids      []*Node
		}
		var later []pending
		lf, lg := 0, 0
		for _, k := range kids {
			prefix := []string{"", "*", "[]"}[k.Rep]
			if k.Group {
				groupNo++
				lg++
				fn := groupNo
				if o.LocalNames {
					fn = lg
				}
				tn := fmt.Sprintf("G%d", groupNo)
				d.Fields = append(d.Fields, fmt.Sprintf("N%d %s%s", fn, prefix, tn))
				later = append(later, pending{tn, fmt.Sprintf("%s/%d", ctx, k.Rep), k.Kids})
			} else {
				leafNo++
				lf++
				fn := leafNo
				if o.LocalNames {
					fn = lf
				}
				d.Fields = append(d.Fields, fmt.Sprintf("F%d %s%s", fn, prefix, prims[(leafNo-1+o.Offset)%len(prims)]))
			}
		}
		idx := len(decls)
		decls = append(decls, d)
		_ = idx
		for _, p := range later {
			emit(p.name, p.ctx, p.kids)
		}
	}
	emit("T", "root", forest)
	return decls
}

// Render prints declarations as Go source (without the package clause).
func Render(decls []StructDecl, imports []string) string {
	var sb strings.Builder
	sb.WriteString("\n")
	if len(imports) > 0 {
		sb.WriteString("import (\n")
		for _, i := range imports {
			fmt.Fprintf(&sb, "\t%q\n", i)
		}
		sb.WriteString(")\n\n")
	}
	for _, d := range decls {
		fmt.Fprintf(&sb, "type %s struct {\n", d.Name)
		for _, f := range d.Fields {
			sb.WriteString("\t" + f + "\n")
		}
		sb.WriteString("}\n\n")
	}
	return sb.String()
}

// ExcludedForm is one way of writing a field that must not reach the file.
type ExcludedForm struct {
	Name   string // short identifier for keys/evidence
	Decl   string // field declaration; %d is replaced by a unique number
	Import string
	// Extra: a type declaration the form needs (name and fields; %d as in Decl)
	ExtraName   string
	ExtraFields []string
}

// ExcludedForms is the rotating list of excluded-field forms.
var ExcludedForms = []ExcludedForm{
	{Name: "lower", Decl: "x%d int32", Import: ""},
	{Name: "lower_string", Decl: "secret%d string", Import: ""},
	{Name: "blank", Decl: "_ int32", Import: ""},
	{Name: "underscore", Decl: "_x%d string", Import: ""},
	{Name: "nonascii_lower", Decl: "éx%d float64", Import: ""},
	{Name: "lower_map", Decl: "m%d map[string]int", Import: ""},
	{Name: "lower_ptr_struct", Decl: "p%d *struct{ A int }", Import: ""},
	{Name: "dash", Decl: "Dash%d string `parquet:\"-\"`", Import: ""},
	{Name: "dash_map", Decl: "DashM%d map[string]int `parquet:\"-\"`", Import: ""},
	{Name: "dash_chan", Decl: "DashC%d chan int `parquet:\"-\"`", Import: ""},
	{Name: "dash_func", Decl: "DashF%d func() `parquet:\"-\"`", Import: ""},
	{Name: "dash_time", Decl: "DashT%d time.Time `parquet:\"-\"`", Import: "time"},
	{Name: "dash_json_before", Decl: "DashJ%d int64 `json:\"j\" parquet:\"-\"`", Import: ""},
	{Name: "dash_json_after", Decl: "DashK%d *int32 `parquet:\"-\" json:\"k\"`", Import: ""},
	{Name: "dash_slice", Decl: "DashS%d []string `parquet:\"-\"`", Import: ""},
	{Name: "dash_iface", Decl: "DashI%d interface{} `parquet:\"-\"`", Import: ""},
	{Name: "dash_escaped_quote", Decl: "DashE%d string `example:\"\\\"n/a\\\"\" parquet:\"-\"`", Import: ""},
	{Name: "dash_many_keys", Decl: "DashN%d int32 `a:\"1\" b:\"x y\" parquet:\"-\" c:\"z:w\"`", Import: ""},
	{Name: "lower_anon_struct", Decl: "q%d struct{ A int32 }", Import: ""},
	{Name: "dash_anon_struct", Decl: "DashA%d struct{ Q string } `parquet:\"-\"`", Import: ""},
	{Name: "dash_func_named_params", Decl: "DashG%d func(X int32, Y string) bool `parquet:\"-\"`", Import: ""},
	{Name: "multi_name_unexported", Decl: "ma%d, mb%d int32", Import: ""},
	// the excluded field's own type declares TAGGED fields
	{Name: "dash_anon_struct_tagged", Decl: "DashB%d struct {\n\t\tA int32 `parquet:\"a\"`\n\t} `parquet:\"-\"`", Import: ""},
	{Name: "dash_ptr_anon_struct_tagged", Decl: "DashP%d *struct {\n\t\tZ string `parquet:\"zz\" json:\"z\"`\n\t} `parquet:\"-\"`", Import: ""},
	{Name: "lower_slice_anon_struct_tagged", Decl: "r%d []struct {\n\t\tK float64 `parquet:\"k\"`\n\t}", Import: ""},
	// names whose first letter has no case (kanji) or is a title-case letter: unexported in Go
	{Name: "caseless_first_letter", Decl: "名前%d string"},
	{Name: "titlecase_first_letter", Decl: "ǅx%d int32"},
	// an EMBEDDED struct that is itself tagged parquet:"-"
	{Name: "dash_embedded_struct", Decl: "XEmb%d `parquet:\"-\"`", ExtraName: "XEmb%d", ExtraFields: []string{"Rev int32", "Note string"}},
	{Name: "dash_embedded_struct_json", Decl: "XEmj%d `json:\"-\" parquet:\"-\"`", ExtraName: "XEmj%d", ExtraFields: []string{"Amount float64"}},
	// an embedded struct whose TYPE is unexported (the field it declares is unexported) although
	// its own fields are exported
	{Name: "unexported_embedded_struct", Decl: "xaudit%d", ExtraName: "xaudit%d", ExtraFields: []string{"Rev int64", "By string"}},
	// "share": the excluded name is ADDED TO THE DECLARATION of the exported field that follows
	// (F1 int32 becomes F1, hid1 int32); at the end of a struct it degrades to an inserted field
	{Name: "multi_name_share", Decl: "hid%d", Import: ""},
}

// Variant is a decorated copy of a base shape.
type Variant struct {
	Kind  string // "excluded" or "embed"
	Desc  string // e.g. "T[2]+dash_map" or "G1[0:2]"
	Depth int    // nesting depth of the decorated struct (1 = root)
	Forms []string
	Ctx   string
	Code  string
}

func depthOf(ctx string) int { return strings.Count(ctx, "/") + 1 }

// ExcludedVariants returns decorated sources for a base: one variant per
// (struct, position) with a rotating form, and one variant with a field
// inserted at every position. rot offsets the rotation.
func ExcludedVariants(forest []*Node, o EmitOpts, rot int) []Variant {
	base := Decls(forest, o)
	var out []Variant
	k := rot
	for di := range base {
		for pos := 0; pos <= len(base[di].Fields); pos++ {
			form := ExcludedForms[k%len(ExcludedForms)]
			k++
			d := cloneDecls(base)
			line := form.Decl
			if strings.Count(line, "%d") == 2 {
				line = fmt.Sprintf(line, 1, 1)
			} else if strings.Contains(line, "%d") {
				line = fmt.Sprintf(line, 1)
			}
			if form.Name == "multi_name_share" {
				if pos < len(d[di].Fields) {
					d[di].Fields[pos] = shareDeclAt(d[di].Fields[pos], line, pos%2 == 1)
				} else {
					d[di].Fields = insertAt(d[di].Fields, pos, line+" int64")
				}
			} else {
				d[di].Fields = insertAt(d[di].Fields, pos, line)
			}
			var imps []string
			if form.Import != "" {
				imps = []string{form.Import}
			}
			d = withExtra(d, form, 1)
			out = append(out, Variant{Kind: "excluded", Desc: fmt.Sprintf("%s[%d]+%s", base[di].Name, pos, form.Name), Depth: depthOf(base[di].Context),
				Forms: []string{form.Name}, Ctx: base[di].Context, Code: Render(d, imps)})
		}
	}
	// everything at once
	d := cloneDecls(base)
	n := 0
	imps := map[string]bool{}
	var forms []string
	var extras []StructDecl
	for di := range d {
		var nf []string
		for pos := 0; pos <= len(base[di].Fields); pos++ {
			form := ExcludedForms[(rot+n)%len(ExcludedForms)]
			n++
			line := form.Decl
			if form.Name == "multi_name_share" {
				// in the all-positions variant the shared declaration would collide with the
				// insertion before the same field: use the unexported pair instead
				line = "ma%d, mb%d int32"
			}
			if strings.Count(line, "%d") == 2 {
				line = fmt.Sprintf(line, n, n)
			} else if strings.Contains(line, "%d") {
				line = fmt.Sprintf(line, n)
			} else if form.Name == "blank" && containsLine(nf, line) {
				line = fmt.Sprintf("x%d int32", n)
			}
			if form.Import != "" {
				imps[form.Import] = true
			}
			if form.ExtraName != "" {
				extras = append(extras, StructDecl{Name: fmt.Sprintf(form.ExtraName, n), Fields: form.ExtraFields})
			}
			forms = append(forms, form.Name)
			nf = append(nf, line)
			if pos < len(base[di].Fields) {
				nf = append(nf, base[di].Fields[pos])
			}
		}
		d[di].Fields = nf
	}
	var il []string
	for i := range imps {
		il = append(il, i)
	}
	d = append(d, extras...)
	out = append(out, Variant{Kind: "excluded", Desc: "all-positions", Depth: len(base), Forms: forms, Ctx: "all", Code: Render(d, il)})
	return out
}

// ExcludedAllForms returns one variant per (struct, position, form): every
// form at every position.
func ExcludedAllForms(forest []*Node, o EmitOpts) []Variant {
	base := Decls(forest, o)
	var out []Variant
	for di := range base {
		for pos := 0; pos <= len(base[di].Fields); pos++ {
			for _, form := range ExcludedForms {
				d := cloneDecls(base)
				line := form.Decl
				if strings.Count(line, "%d") == 2 {
					line = fmt.Sprintf(line, 1, 1)
				} else if strings.Contains(line, "%d") {
					line = fmt.Sprintf(line, 1)
				}
				if form.Name == "multi_name_share" {
					if pos < len(d[di].Fields) {
						d[di].Fields[pos] = shareDeclAt(d[di].Fields[pos], line, pos%2 == 1)
					} else {
						d[di].Fields = insertAt(d[di].Fields, pos, line+" int64")
					}
				} else {
					d[di].Fields = insertAt(d[di].Fields, pos, line)
				}
				var imps []string
				if form.Import != "" {
					imps = []string{form.Import}
				}
				d = withExtra(d, form, 1)
				out = append(out, Variant{Kind: "excluded", Desc: fmt.Sprintf("%s[%d]+%s", base[di].Name, pos, form.Name), Depth: depthOf(base[di].Context),
					Forms: []string{form.Name}, Ctx: base[di].Context, Code: Render(d, imps)})
			}
		}
	}
	return out
}

// withExtra appends the type declaration a form needs.
func withExtra(d []StructDecl, form ExcludedForm, n int) []StructDecl {
	if form.ExtraName == "" {
		return d
	}
	return append(d, StructDecl{Name: fmt.Sprintf(form.ExtraName, n), Fields: form.ExtraFields})
}

func containsLine(ls []string, l string) bool {
	for _, x := range ls {
		if x == l {
			return true
		}
	}
	return false
}

func insertAt(fs []string, pos int, line string) []string {
	out := append([]string{}, fs[:pos]...)
	out = append(out, line)
	return append(out, fs[pos:]...)
}

func cloneDecls(d []StructDecl) []StructDecl {
	out := make([]StructDecl, len(d))
	for i := range d {
		out[i] = StructDecl{Name: d[i].Name, Context: d[i].Context, Fields: append([]string{}, d[i].Fields...)}
	}
	return out
}

// EmbedVariants returns, for every contiguous run of sibling fields in every
// struct of the base, the source in which the run is moved into an embedded
// struct.
func EmbedVariants(forest []*Node, o EmitOpts) []Variant {
	base := Decls(forest, o)
	var out []Variant
	for di := range base {
		n := len(base[di].Fields)
		for i := 0; i < n; i++ {
			for j := i + 1; j <= n; j++ {
				d := cloneDecls(base)
				emb := StructDecl{Name: "E1", Fields: append([]string{}, base[di].Fields[i:j]...)}
				nf := append([]string{}, base[di].Fields[:i]...)
				// the embedded field itself may carry tags: embedding stays inlining
				// (rotating: none, a parquet name tag, a json-only tag)
				line, style := "E1", "untagged"
				switch (di + i + j) % 3 {
				case 1:
					line, style = "E1 `parquet:\"e1x\"`", "parquet_name_tag"
				case 2:
					line, style = "E1 `json:\"e1j,omitempty\"`", "json_tag"
				}
				nf = append(nf, line)
				nf = append(nf, base[di].Fields[j:]...)
				d[di].Fields = nf
				d = append(d, emb)
				out = append(out, Variant{Kind: "embed", Desc: fmt.Sprintf("%s[%d:%d]", base[di].Name, i, j), Depth: depthOf(base[di].Context), Ctx: base[di].Context, Forms: []string{"embed_" + style}, Code: Render(d, nil)})
			}
		}
	}
	return out
}

// shareDecl turns "F1 *int32" into "F1, hid1 *int32".
// shareDeclAt puts the extra name after the field's own name (F1, hid1 int32) or, with first set,
// before it (hid1, F1 int32): the names after an excluded one must survive (seeded/C14m: `break`
// instead of `continue` in the parser's loop over the names of one declaration).
func shareDeclAt(field, extra string, first bool) string {
	if first && strings.Contains(field, " ") {
		return extra + ", " + field
	}
	return shareDecl(field, extra)
}

func shareDecl(field, extra string) string {
	i := strings.Index(field, " ")
	if i < 0 {
		return field
	}
	return field[:i] + ", " + extra + field[i:]
}
