package shapes

import (
	"fmt"
	"strings"
)

// StructDecl is one struct type of an emitted shape, kept as field lines so
// that decorations can be applied before rendering.
type StructDecl struct {
	Name   string
	Fields []string
	// Context is the repetition context of the struct: "root", or the
	// repetition (0/1/2) of the group field that uses it, prefixed by the
	// context of its parent, e.g. "root/2/0".
	Context string
}

// Decls is Source split into declarations.
func Decls(forest []*Node, o EmitOpts) []StructDecl {
	prims := o.Prims
	if prims == nil {
		prims = primNames
	}
	var decls []StructDecl
	leafNo, groupNo := 0, 0
	var emit func(name, ctx string, kids []*Node)
	emit = func(name, ctx string, kids []*Node) {
		d := StructDecl{Name: name, Context: ctx}
		type pending struct {
			name, ctx string
			kids      []*Node
		}
		var later []pending
		lf, lg := 0, 0
		for _, k := range kids {
			prefix := []string{"", "*", "[]"}[k.Rep]
			if k.Group {
				groupNo++
				lg++
				fn := groupNo
				if o.LocalNames {
					fn = lg
				}
				tn := fmt.Sprintf("G%d", groupNo)
				d.Fields = append(d.Fields, fmt.Sprintf("N%d %s%s", fn, prefix, tn))
				later = append(later, pending{tn, fmt.Sprintf("%s/%d", ctx, k.Rep), k.Kids})
			} else {
				leafNo++
				lf++
				fn := leafNo
				if o.LocalNames {
					fn = lf
				}
				d.Fields = append(d.Fields, fmt.Sprintf("F%d %s%s", fn, prefix, prims[(leafNo-1+o.Offset)%len(prims)]))
			}
		}
		idx := len(decls)
		decls = append(decls, d)
		_ = idx
		for _, p := range later {
			emit(p.name, p.ctx, p.kids)
		}
	}
	emit("T", "root", forest)
	return decls
}

// Render prints declarations as Go source (without the package clause).
func Render(decls []StructDecl, imports []string) string {
	var sb strings.Builder
	sb.WriteString("\n")
	if len(imports) > 0 {
		sb.WriteString("import (\n")
		for _, i := range imports {
			fmt.Fprintf(&sb, "\t%q\n", i)
		}
		sb.WriteString(")\n\n")
	}
	for _, d := range decls {
		fmt.Fprintf(&sb, "type %s struct {\n", d.Name)
		for _, f := range d.Fields {
			sb.WriteString("\t" + f + "\n")
		}
		sb.WriteString("}\n\n")
	}
	return sb.String()
}

// ExcludedForm is one way of writing a field that must not reach the file.
type ExcludedForm struct {
	Name   string // short identifier for keys/evidence
	Decl   string // field declaration; %d is replaced by a unique number
	Import string
}

// ExcludedForms is the rotating list of excluded-field forms.
var ExcludedForms = []ExcludedForm{
	{"lower", "x%d int32", ""},
	{"lower_string", "secret%d string", ""},
	{"blank", "_ int32", ""},
	{"underscore", "_x%d string", ""},
	{"nonascii_lower", "éx%d float64", ""},
	{"lower_map", "m%d map[string]int", ""},
	{"lower_ptr_struct", "p%d *struct{ A int }", ""},
	{"dash", "Dash%d string `parquet:\"-\"`", ""},
	{"dash_map", "DashM%d map[string]int `parquet:\"-\"`", ""},
	{"dash_chan", "DashC%d chan int `parquet:\"-\"`", ""},
	{"dash_func", "DashF%d func() `parquet:\"-\"`", ""},
	{"dash_time", "DashT%d time.Time `parquet:\"-\"`", "time"},
	{"dash_json_before", "DashJ%d int64 `json:\"j\" parquet:\"-\"`", ""},
	{"dash_json_after", "DashK%d *int32 `parquet:\"-\" json:\"k\"`", ""},
	{"dash_slice", "DashS%d []string `parquet:\"-\"`", ""},
	{"dash_iface", "DashI%d interface{} `parquet:\"-\"`", ""},
	{"dash_escaped_quote", "DashE%d string `example:\"\\\"n/a\\\"\" parquet:\"-\"`", ""},
	{"dash_many_keys", "DashN%d int32 `a:\"1\" b:\"x y\" parquet:\"-\" c:\"z:w\"`", ""},
	{"lower_anon_struct", "q%d struct{ A int32 }", ""},
	{"dash_anon_struct", "DashA%d struct{ Q string } `parquet:\"-\"`", ""},
	{"dash_func_named_params", "DashG%d func(X int32, Y string) bool `parquet:\"-\"`", ""},
	{"multi_name_unexported", "ma%d, mb%d int32", ""},
	// the excluded field's own type declares TAGGED fields
	{"dash_anon_struct_tagged", "DashB%d struct {\n\t\tA int32 `parquet:\"a\"`\n\t} `parquet:\"-\"`", ""},
	{"dash_ptr_anon_struct_tagged", "DashP%d *struct {\n\t\tZ string `parquet:\"zz\" json:\"z\"`\n\t} `parquet:\"-\"`", ""},
	{"lower_slice_anon_struct_tagged", "r%d []struct {\n\t\tK float64 `parquet:\"k\"`\n\t}", ""},
	// "share": the excluded name is ADDED TO THE DECLARATION of the exported field that follows
	// (F1 int32 becomes F1, hid1 int32); at the end of a struct it degrades to an inserted field
	{"multi_name_share", "hid%d", ""},
}

// Variant is a decorated copy of a base shape.
type Variant struct {
	Kind  string // "excluded" or "embed"
	Desc  string // e.g. "T[2]+dash_map" or "G1[0:2]"
	Depth int    // nesting depth of the decorated struct (1 = root)
	Forms []string
	Ctx   string
	Code  string
}

func depthOf(ctx string) int { return strings.Count(ctx, "/") + 1 }

// ExcludedVariants returns decorated sources for a base: one variant per
// (struct, position) with a rotating form, and one variant with a field
// inserted at every position. rot offsets the rotation.
func ExcludedVariants(forest []*Node, o EmitOpts, rot int) []Variant {
	base := Decls(forest, o)
	var out []Variant
	k := rot
	for di := range base {
		for pos := 0; pos <= len(base[di].Fields); pos++ {
			form := ExcludedForms[k%len(ExcludedForms)]
			k++
			d := cloneDecls(base)
			line := form.Decl
			if strings.Count(line, "%d") == 2 {
				line = fmt.Sprintf(line, 1, 1)
			} else if strings.Contains(line, "%d") {
				line = fmt.Sprintf(line, 1)
			}
			if form.Name == "multi_name_share" {
				if pos < len(d[di].Fields) {
					d[di].Fields[pos] = shareDecl(d[di].Fields[pos], line)
				} else {
					d[di].Fields = insertAt(d[di].Fields, pos, line+" int64")
				}
			} else {
				d[di].Fields = insertAt(d[di].Fields, pos, line)
			}
			var imps []string
			if form.Import != "" {
				imps = []string{form.Import}
			}
			out = append(out, Variant{Kind: "excluded", Desc: fmt.Sprintf("%s[%d]+%s", base[di].Name, pos, form.Name), Depth: depthOf(base[di].Context),
				Forms: []string{form.Name}, Ctx: base[di].Context, Code: Render(d, imps)})
		}
	}
	// everything at once
	d := cloneDecls(base)
	n := 0
	imps := map[string]bool{}
	var forms []string
	for di := range d {
		var nf []string
		for pos := 0; pos <= len(base[di].Fields); pos++ {
			form := ExcludedForms[(rot+n)%len(ExcludedForms)]
			n++
			line := form.Decl
			if form.Name == "multi_name_share" {
				// in the all-positions variant the shared declaration would collide with the
				// insertion before the same field: use the unexported pair instead
				line = "ma%d, mb%d int32"
			}
			if strings.Count(line, "%d") == 2 {
				line = fmt.Sprintf(line, n, n)
			} else if strings.Contains(line, "%d") {
				line = fmt.Sprintf(line, n)
			} else if form.Name == "blank" && containsLine(nf, line) {
				line = fmt.Sprintf("x%d int32", n)
			}
			if form.Import != "" {
				imps[form.Import] = true
			}
			forms = append(forms, form.Name)
			nf = append(nf, line)
			if pos < len(base[di].Fields) {
				nf = append(nf, base[di].Fields[pos])
			}
		}
		d[di].Fields = nf
	}
	var il []string
	for i := range imps {
		il = append(il, i)
	}
	out = append(out, Variant{Kind: "excluded", Desc: "all-positions", Depth: len(base), Forms: forms, Ctx: "all", Code: Render(d, il)})
	return out
}

// ExcludedAllForms returns one variant per (struct, position, form): every
// form at every position.
func ExcludedAllForms(forest []*Node, o EmitOpts) []Variant {
	base := Decls(forest, o)
	var out []Variant
	for di := range base {
		for pos := 0; pos <= len(base[di].Fields); pos++ {
			for _, form := range ExcludedForms {
				d := cloneDecls(base)
				line := form.Decl
				if strings.Count(line, "%d") == 2 {
					line = fmt.Sprintf(line, 1, 1)
				} else if strings.Contains(line, "%d") {
					line = fmt.Sprintf(line, 1)
				}
				if form.Name == "multi_name_share" {
					if pos < len(d[di].Fields) {
						d[di].Fields[pos] = shareDecl(d[di].Fields[pos], line)
					} else {
						d[di].Fields = insertAt(d[di].Fields, pos, line+" int64")
					}
				} else {
					d[di].Fields = insertAt(d[di].Fields, pos, line)
				}
				var imps []string
				if form.Import != "" {
					imps = []string{form.Import}
				}
				out = append(out, Variant{Kind: "excluded", Desc: fmt.Sprintf("%s[%d]+%s", base[di].Name, pos, form.Name), Depth: depthOf(base[di].Context),
					Forms: []string{form.Name}, Ctx: base[di].Context, Code: Render(d, imps)})
			}
		}
	}
	return out
}

func containsLine(ls []string, l string) bool {
	for _, x := range ls {
		if x == l {
			return true
		}
	}
	return false
}

func insertAt(fs []string, pos int, line string) []string {
	out := append([]string{}, fs[:pos]...)
	out = append(out, line)
	return append(out, fs[pos:]...)
}

func cloneDecls(d []StructDecl) []StructDecl {
	out := make([]StructDecl, len(d))
	for i := range d {
		out[i] = StructDecl{Name: d[i].Name, Context: d[i].Context, Fields: append([]string{}, d[i].Fields...)}
	}
	return out
}

// EmbedVariants returns, for every contiguous run of sibling fields in every
// struct of the base, the source in which the run is moved into an embedded
// struct.
func EmbedVariants(forest []*Node, o EmitOpts) []Variant {
	base := Decls(forest, o)
	var out []Variant
	for di := range base {
		n := len(base[di].Fields)
		for i := 0; i < n; i++ {
			for j := i + 1; j <= n; j++ {
				d := cloneDecls(base)
				emb := StructDecl{Name: "E1", Fields: append([]string{}, base[di].Fields[i:j]...)}
				nf := append([]string{}, base[di].Fields[:i]...)
				nf = append(nf, "E1")
				nf = append(nf, base[di].Fields[j:]...)
				d[di].Fields = nf
				d = append(d, emb)
				out = append(out, Variant{Kind: "embed", Desc: fmt.Sprintf("%s[%d:%d]", base[di].Name, i, j), Depth: depthOf(base[di].Context), Ctx: base[di].Context, Code: Render(d, nil)})
			}
		}
	}
	return out
}

// shareDecl turns "F1 *int32" into "F1, hid1 *int32".
func shareDecl(field, extra string) string {
	i := strings.Index(field, " ")
	if i < 0 {
		return field
	}
	return field[:i] + ", " + extra + field[i:]
}
