package shapes

import (
	"fmt"
	"hash/fnv"
	"strings"
)

// Node is one node of a canonical struct shape.
type Node struct {
	Group bool
	Rep   int // 0 required, 1 optional, 2 repeated
	Kids  []*Node
}

var repSuffix = []string{"", "?", "*"}

// Sig renders the canonical signature of a forest, e.g. "l,g?(l*,l),l".
func Sig(forest []*Node) string {
	var parts []string
	for _, n := range forest {
		if n.Group {
			parts = append(parts, "g"+repSuffix[n.Rep]+"("+Sig(n.Kids)+")")
		} else {
			parts = append(parts, "l"+repSuffix[n.Rep])
		}
	}
	return strings.Join(parts, ",")
}

func countNodes(forest []*Node) int {
	n := 0
	for _, x := range forest {
		n += 1 + countNodes(x.Kids)
	}
	return n
}

// HasRepeated reports whether any node is repeated.
func HasRepeated(forest []*Node) bool {
	for _, x := range forest {
		if x.Rep == 2 || HasRepeated(x.Kids) {
			return true
		}
	}
	return false
}

// Enumerate returns every ordered forest with between 1 and maxNodes nodes,
// nesting depth <= maxDepth (root fields are depth 1), groups non-empty, in a
// fixed order (by node count, then lexicographic construction order). If
// noRepeated is set, repeated nodes are left out.
func Enumerate(maxNodes, maxDepth int, noRepeated bool) [][]*Node {
	reps := []int{0, 1, 2}
	if noRepeated {
		reps = []int{0, 1}
	}
	// forests(n, depth): all forests with exactly n nodes whose roots are at the given depth
	type key struct{ n, d int }
	memo := map[key][][]*Node{}
	var forests func(n, d int) [][]*Node
	// trees(n, d): all single trees with exactly n nodes rooted at depth d
	var trees func(n, d int) []*Node
	trees = func(n, d int) []*Node {
		var out []*Node
		if n == 1 {
			for _, r := range reps {
				out = append(out, &Node{Rep: r})
			}
			return out
		}
		if d >= maxDepth {
			return nil
		}
		for _, kids := range forests(n-1, d+1) {
			for _, r := range reps {
				out = append(out, &Node{Group: true, Rep: r, Kids: kids})
			}
		}
		return out
	}
	forests = func(n, d int) [][]*Node {
		if n == 0 {
			return [][]*Node{nil}
		}
		k := key{n, d}
		if v, ok := memo[k]; ok {
			return v
		}
		var out [][]*Node
		for first := 1; first <= n; first++ {
			for _, t := range trees(first, d) {
				for _, rest := range forests(n-first, d) {
					f := append([]*Node{t}, rest...)
					out = append(out, f)
				}
			}
		}
		memo[k] = out
		return out
	}
	var all [][]*Node
	for n := 1; n <= maxNodes; n++ {
		all = append(all, forests(n, 1)...)
	}
	return all
}

var primNames = []string{"int32", "int64", "uint32", "uint64", "float32", "float64", "string", "bool"}

// signedPrims are the leaf types C15 is stated for.
var signedPrims = []string{"int32", "int64", "float32", "float64", "bool", "string"}

// EmitOpts controls source emission.
type EmitOpts struct {
	Prims  []string // leaf type cycle (default: all eight)
	Offset int      // rotation of the cycle
	// LowerTags gives every field a parquet tag with the lower-cased field
	// name, so that column names differ from Go field names.
	LowerTags bool
	// TagStyle (used when LowerTags is set): 0 lower-case ASCII (f1), 1 a lower-case
	// non-ASCII first letter (éf1), 2 snake case (f_1)
	TagStyle int
	// LocalNames numbers the fields of every struct from 1 (F1, F2, N1 …), so that
	// nested structs repeat the field names of the structs around them.
	LocalNames bool
}

// Source emits Go declarations for the forest: root type T, one named struct
// type per group (G1, G2, …), globally unique field names (F1…, N1…); leaf
// types are assigned round-robin in pre-order.
func Source(forest []*Node, o EmitOpts) string {
	prims := o.Prims
	if prims == nil {
		prims = primNames
	}
	var decls []string
	leafNo, groupNo := 0, 0
	var emitStruct func(name string, kids []*Node)
	emitStruct = func(name string, kids []*Node) {
		var sb strings.Builder
		fmt.Fprintf(&sb, "type %s struct {\n", name)
		type pending struct {
			name string
			kids []*Node
		}
		var later []pending
		lf, lg := 0, 0
		for _, k := range kids {
			prefix := []string{"", "*", "[]"}[k.Rep]
			if k.Group {
				groupNo++
				lg++
				fn := groupNo
				if o.LocalNames {
					fn = lg
				}
				tn := fmt.Sprintf("G%d", groupNo)
				fmt.Fprintf(&sb, "\tN%d %s%s%s\n", fn, prefix, tn, tagFor(o, fmt.Sprintf("n%d", fn)))
				later = append(later, pending{tn, k.Kids})
			} else {
				leafNo++
				lf++
				fn := leafNo
				if o.LocalNames {
					fn = lf
				}
				fmt.Fprintf(&sb, "\tF%d %s%s%s\n", fn, prefix, prims[(leafNo-1+o.Offset)%len(prims)], tagFor(o, fmt.Sprintf("f%d", fn)))
			}
		}
		sb.WriteString("}\n")
		decls = append(decls, sb.String())
		for _, p := range later {
			emitStruct(p.name, p.kids)
		}
	}
	emitStruct("T", forest)
	return "\n" + strings.Join(decls, "\n")
}

// SigOffset derives the leaf-type rotation of a shape from its signature, so
// that every template category appears in every sibling position across the
// enumeration without depending on the seed.
func SigOffset(sig string, mod int) int {
	h := fnv.New32a()
	h.Write([]byte(sig))
	return int(h.Sum32() % uint32(mod))
}

// EnumSrcs returns the sources of the bounded enumeration, named s00000….
func EnumSrcs(maxNodes, maxDepth int) []Src {
	var out []Src
	for i, f := range Enumerate(maxNodes, maxDepth, false) {
		sig := Sig(f)
		off := SigOffset(sig, 8)
		out = append(out, Src{Name: fmt.Sprintf("s%05d", i), Type: "T", Sig: fmt.Sprintf("%s@%d", sig, off), Code: Source(f, EmitOpts{Offset: off})})
	}
	return out
}

func tagFor(o EmitOpts, name string) string {
	if !o.LowerTags {
		return ""
	}
	switch o.TagStyle {
	case 1:
		name = "é" + name
	case 2:
		name = name[:1] + "_" + name[1:]
	}
	return " `parquet:\"" + name + "\"`"
}

// SignedPrims are the leaf types C15 is stated for.
func SignedPrims() []string { return signedPrims }

// UniformSrcs returns, for each primitive type, every shape with at most
// maxNodes nodes in which all leaves have that type (named u<type-index>_<n>):
// a struct made of a single template category is a program the round-robin
// assignment never produces.
func UniformSrcs(maxNodes int) []Src {
	var out []Src
	for ti, t := range primNames {
		for i, f := range Enumerate(maxNodes, 3, false) {
			sig := Sig(f)
			out = append(out, Src{Name: fmt.Sprintf("u%d_%04d", ti, i), Type: "T", Sig: fmt.Sprintf("%s@=%s", sig, t), Code: Source(f, EmitOpts{Prims: []string{t}})})
		}
	}
	return out
}

// ReuseSrcs returns shapes in which one struct type is used by two sibling
// fields (T{A W; B W} with W built from every forest of at most maxNodes nodes
// and depth <= 2), so that equal group names recur under different parents at
// every level — the layout that type reuse produces in real schemas.
func ReuseSrcs(maxNodes int) []Src {
	var out []Src
	for i, f := range Enumerate(maxNodes, 2, false) {
		sig := Sig(f)
		off := SigOffset(sig, 8)
		body := Source(f, EmitOpts{Offset: off})
		body = strings.Replace(body, "type T struct", "type W struct", 1)
		code := "\ntype T struct {\n\tA W\n\tB W\n}\n" + body
		out = append(out, Src{Name: fmt.Sprintf("w%05d", i), Type: "T", Sig: fmt.Sprintf("reuse(%s)@%d", sig, off), Code: code})
	}
	return out
}

// DeepSrcs returns chains of three nested groups (leaves at nesting depth 4, one
// level deeper than the bounded enumeration): T{N1 g1{N2 g2{N3 g3{F1, F2}}}} for
// repetition choices of the groups and of the two innermost leaves; with
// siblings, every group additionally carries a trailing optional leaf. reps
// lists the repetition types the groups range over.
func DeepSrcs(groupReps []int, withSiblings bool) []Src {
	var out []Src
	n := 0
	for _, r1 := range groupReps {
		for _, r2 := range groupReps {
			for _, r3 := range groupReps {
				for la := 0; la < 3; la++ {
					for lb := 0; lb < 3; lb++ {
						if withSiblings && !(la == 0 && lb == 1) {
							continue
						}
						inner := []*Node{{Rep: la}, {Rep: lb}}
						g3 := &Node{Group: true, Rep: r3, Kids: inner}
						k2 := []*Node{g3}
						if withSiblings {
							k2 = append(k2, &Node{Rep: 1})
						}
						g2 := &Node{Group: true, Rep: r2, Kids: k2}
						k1 := []*Node{g2}
						if withSiblings {
							k1 = append(k1, &Node{Rep: 1})
						}
						g1 := &Node{Group: true, Rep: r1, Kids: k1}
						f := []*Node{{Rep: 0}, g1}
						sig := Sig(f)
						off := SigOffset(sig, 8)
						tag := "deep"
						if withSiblings {
							tag = "deeps"
						}
						out = append(out, Src{Name: fmt.Sprintf("d%s%04d", tag[4:], n), Type: "T", Sig: fmt.Sprintf("%s@%d", sig, off), Code: Source(f, EmitOpts{Offset: off})})
						n++
					}
				}
			}
		}
	}
	return out
}
