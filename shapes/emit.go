package shapes

import (
	"fmt"
	"os"
	"path/filepath"
	"regexp"
	"sort"
	"strings"
)

// WorkModule is the import path of the scratch module the checks build in.
// It lives under the repository's module path so that drivers may import the
// repository's internal packages (rle, bitpack) directly.
const WorkModule = "github.com/parsyl/parquet/verifwork"

// KitModule is the import path of /verif.
const KitModule = "github.com/parsyl/parquet/verifkit"

// WriteGoMod creates the work module's go.mod and go.sum.
func WriteGoMod(dir, repo, kit string, extraReplace map[string]string) error {
	var sb strings.Builder
	fmt.Fprintf(&sb, "module %s\n\ngo 1.20\n\nrequire (\n\tgithub.com/parsyl/parquet v0.0.0\n\t%s v0.0.0\n\tgithub.com/apache/thrift v0.18.1\n\tgithub.com/golang/snappy v0.0.2\n\tgithub.com/valyala/bytebufferpool v1.0.0\n)\n\n", WorkModule, KitModule)
	fmt.Fprintf(&sb, "replace github.com/parsyl/parquet => %s\n\nreplace %s => %s\n", repo, KitModule, kit)
	keys := make([]string, 0, len(extraReplace))
	for k := range extraReplace {
		keys = append(keys, k)
	}
	sort.Strings(keys)
	for _, k := range keys {
		fmt.Fprintf(&sb, "\nreplace %s => %s\n", k, extraReplace[k])
	}
	if err := os.WriteFile(filepath.Join(dir, "go.mod"), []byte(sb.String()), 0o644); err != nil {
		return err
	}
	sum, err := os.ReadFile(filepath.Join(repo, "go.sum"))
	if err != nil {
		return err
	}
	return os.WriteFile(filepath.Join(dir, "go.sum"), sum, 0o644)
}

// EmitTypes writes <dir>/<name>/types.go.
func EmitTypes(dir string, s Src) error {
	pd := filepath.Join(dir, s.Name)
	if err := os.MkdirAll(pd, 0o755); err != nil {
		return err
	}
	code := "package " + s.Name + "\n" + s.Code
	if err := os.WriteFile(filepath.Join(pd, "types.go"), []byte(code), 0o644); err != nil {
		return err
	}
	// two neighbours in the same directory that are NOT part of the build: a platform variant
	// and a scratch file, each declaring the SAME type names with other fields. Only the
	// -input file defines the struct; what lies next to it must not matter.
	var decoy strings.Builder
	for _, m := range typeDecl.FindAllStringSubmatch(s.Code, -1) {
		fmt.Fprintf(&decoy, "type %s struct {\n\tZDecoy%s string `parquet:\"zdecoy\"`\n\tZMore []float64\n}\n\n", m[1], m[1])
	}
	if err := os.WriteFile(filepath.Join(pd, "zz_types_plan9.go"), []byte("//go:build plan9\n\npackage "+s.Name+"\n\n"+decoy.String()), 0o644); err != nil {
		return err
	}
	return os.WriteFile(filepath.Join(pd, "zz_scratch.go"), []byte("//go:build ignore\n\npackage main\n\n"+decoy.String()+"func main() {}\n"), 0o644)
}

var typeDecl = regexp.MustCompile(`(?m)^type (\w+) struct`)

// EmitGlue writes <dir>/<name>/glue.go which registers the generated package
// with the driver runtime.
func EmitGlue(dir string, s Src) error {
	meta := "map[string]string{"
	keys := make([]string, 0, len(s.Meta))
	for k := range s.Meta {
		keys = append(keys, k)
	}
	sort.Strings(keys)
	for _, k := range keys {
		meta += fmt.Sprintf("%q: %q, ", k, s.Meta[k])
	}
	meta += "}"
	code := fmt.Sprintf(`package %[1]s

import (
	"io"
	"reflect"
	"sync"

	drv "%[4]s/drv"
)

type vfW struct{ w *ParquetWriter }

func (a vfW) Add(x interface{}) { a.w.Add(x.(%[2]s)) }
func (a vfW) Write() error      { return a.w.Write() }
func (a vfW) Close() error      { return a.w.Close() }

type vfR struct{ r *ParquetReader }

func (a vfR) Rows() int64          { return a.r.Rows() }
func (a vfR) Next() bool           { return a.r.Next() }
func (a vfR) Scan(x interface{})   { a.r.Scan(x.(*%[2]s)) }
func (a vfR) Error() error         { return a.r.Error() }

var (
	optMu   sync.Mutex
	optSets = map[[2]int][]func(*ParquetWriter) error{}
)

// sharedOpts returns the one option slice of this process for (page, codec);
// it has spare capacity, as a slice grown by append usually has.
func sharedOpts(page, codec int) []func(*ParquetWriter) error {
	optMu.Lock()
	defer optMu.Unlock()
	k := [2]int{page, codec}
	if o, ok := optSets[k]; ok {
		return o
	}
	o := make([]func(*ParquetWriter) error, 0, 8)
	if page > 0 {
		o = append(o, MaxPageSize(page))
	}
	switch codec {
	case 0:
		o = append(o, Uncompressed)
	case 1:
		o = append(o, Snappy)
	case 2:
		o = append(o, Gzip)
	}
	optSets[k] = o
	return o
}

func init() {
	drv.Register(drv.Shape{
		Name: %[1]q,
		Sig:  %[3]q,
		Type: reflect.TypeOf(%[2]s{}),
		Meta: %[5]s,
		NewWriter: func(w io.Writer, page int, codec int) (drv.W, error) {
			var opts []func(*ParquetWriter) error
			if page > 0 {
				opts = append(opts, MaxPageSize(page))
			}
			switch codec {
			case 0:
				opts = append(opts, Uncompressed)
			case 1:
				opts = append(opts, Snappy)
			case 2:
				opts = append(opts, Gzip)
			}
			pw, err := NewParquetWriter(w, opts...)
			if err != nil {
				return nil, err
			}
			return vfW{pw}, nil
		},
		NewWriterShared: func(w io.Writer, page int, codec int) (drv.W, error) {
			pw, err := NewParquetWriter(w, sharedOpts(page, codec)...)
			if err != nil {
				return nil, err
			}
			return vfW{pw}, nil
		},
		NewReader: func(r io.ReadSeeker) (drv.R, error) {
			pr, err := NewParquetReader(r)
			if err != nil {
				return nil, err
			}
			return vfR{pr}, nil
		},
	})
}
`, s.Name, s.Type, s.Sig, KitModule, meta)
	return os.WriteFile(filepath.Join(dir, s.Name, "glue.go"), []byte(code), 0o644)
}

// EmitDriverMain writes <dir>/cmd/<bin>/main.go importing the given packages.
func EmitDriverMain(dir, bin string, pkgs []string) error {
	md := filepath.Join(dir, "cmd", bin)
	if err := os.MkdirAll(md, 0o755); err != nil {
		return err
	}
	var sb strings.Builder
	sb.WriteString("package main\n\nimport (\n")
	fmt.Fprintf(&sb, "\t\"%s/drv\"\n", KitModule)
	for _, p := range pkgs {
		fmt.Fprintf(&sb, "\t_ \"%s/%s\"\n", WorkModule, p)
	}
	sb.WriteString(")\n\nfunc main() { drv.Main() }\n")
	return os.WriteFile(filepath.Join(md, "main.go"), []byte(sb.String()), 0o644)
}
