// Package shapes produces the Go struct definitions that the checks feed to
// parquetgen: the fixed portfolio P1-P8, the bounded enumeration of struct
// shapes (C05/C14/C15) and the decorations of C14.
package shapes

// Src is one struct definition to generate a reader/writer for.
type Src struct {
	Name string // package name, e.g. "p1"
	Type string // root struct type name
	Code string // Go declarations (without the package clause)
	Sig  string // canonical signature (enumerated shapes)
	Meta map[string]string
}

// Portfolio returns the fixed portfolio shapes.
func Portfolio() []Src {
	return []Src{
		{Name: "p1", Type: "Flat", Code: `
type Flat struct {
	I32  int32
	U32  uint32
	I64  int64
	U64  uint64
	F32  float32
	F64  float64
	S    string
	B    bool
	OI32 *int32
	OU32 *uint32
	OI64 *int64
	OU64 *uint64
	OF32 *float32
	OF64 *float64
	OS   *string
	OB   *bool
	RI32 []int32
	RU32 []uint32
	RI64 []int64
	RU64 []uint64
	RF32 []float32
	RF64 []float64
	RS   []string
	RB   []bool
}
`},
		{Name: "p2", Type: "Person", Code: `
type Being struct {
	ID   int32  ` + "`parquet:\"id\"`" + `
	Name string ` + "`parquet:\"name\"`" + `
	Age  *int32 ` + "`parquet:\"age\"`" + `
}

type Skill struct {
	Name       string ` + "`parquet:\"name\"`" + `
	Difficulty string ` + "`parquet:\"difficulty\"`" + `
}

type Hobby struct {
	Name       string  ` + "`parquet:\"name\"`" + `
	Difficulty *int32  ` + "`parquet:\"difficulty\"`" + `
	Skills     []Skill ` + "`parquet:\"skills\"`" + `
}

type Person struct {
	Being
	Happiness   int64    ` + "`parquet:\"happiness\"`" + `
	Sadness     *int64   ` + "`parquet:\"sadness\"`" + `
	Code        *string  ` + "`parquet:\"code\"`" + `
	Funkiness   float32  ` + "`parquet:\"funkiness\"`" + `
	Boldness    float64  ` + "`parquet:\"boldness\"`" + `
	Lameness    *float32 ` + "`parquet:\"lameness\"`" + `
	Keen        *bool    ` + "`parquet:\"keen\"`" + `
	Birthday    uint32   ` + "`parquet:\"birthday\"`" + `
	Anniversary *uint64  ` + "`parquet:\"anniversary\"`" + `
	BFF         string   ` + "`parquet:\"bff\"`" + `
	Hungry      bool     ` + "`parquet:\"hungry\"`" + `
	Secret      string   ` + "`parquet:\"-\"`" + `
	Hobby       *Hobby   ` + "`parquet:\"hobby\"`" + `
	Friends     []Being  ` + "`parquet:\"friends\"`" + `
	Sleepy      bool
}
`},
		{Name: "p3", Type: "Document", Code: `
type Link struct {
	Backward []int64
	Forward  []int64
}

type Language struct {
	Code    string
	Country *string
}

type Name struct {
	Languages []Language
	URL       *string
}

type Document struct {
	DocID int64
	Links []Link
	Names []Name
}
`},
		{Name: "p4", Type: "Deep", Code: `
type Inner struct {
	V *int64
	W string
}

type Mid struct {
	Inner *Inner
	X     *float64
}

type Addr struct {
	Street string
	Zip    *int32
}

type Req struct {
	Addr *Addr
	N    int32
}

type Deep struct {
	ID  int64
	Mid *Mid
	Req Req
	Tag *string
}
`},
		{Name: "p5", Type: "Items", Code: `
type Item struct {
	Name  string
	Tags  []string
	Score *float32
}

type Items struct {
	ID    uint64
	Flags []bool
	Items []Item
	Done  *bool
}
`},
		{Name: "p6", Type: "SameNames", Code: `
type In struct {
	X int32
	Y *string
}

type A struct {
	In In
	P  int64
}

type B struct {
	In *In
	Q  bool
}

type SameNames struct {
	A  A
	B  *B
	In In
	Z  float64
}
`},
		{Name: "p7", Type: "DeepRequired", Code: `
type L3 struct {
	V int32
	S string
}

type L2 struct {
	L3 L3
	K  uint32
}

type L1 struct {
	L2 L2
	F  float32
}

type DeepRequired struct {
	ID int64
	L1 L1
	B  bool
}
`},
		{Name: "p9", Type: "Reuse", Code: `
type Geo struct {
	Lat float64
	Lon *float64
}

type Address struct {
	City string
	Geo  Geo
}

type Contact struct {
	Phone   *string
	Address Address
}

type Holder struct {
	Address Address
	N       int32
}

type Reuse struct {
	ID     int64
	Home   Contact
	Work   Contact
	Root   Holder ` + "`parquet:\"root\"`" + `
	Holder Holder
	Alt    *Contact
}
`},
		// p10/p11: twins with identical column paths and repetition types but different
		// physical types (anything keyed by path alone confuses them)
		{Name: "p10", Type: "Twin", Code: `
type Part struct {
	Code  int32
	Label *string
}

type Twin struct {
	ID    int32
	Name  string
	Score *float32
	Tags  []int64
	Parts []Part
	Flag  bool
}
`},
		{Name: "p11", Type: "Twin", Code: `
type Part struct {
	Code  int64
	Label *string
}

type Twin struct {
	ID    int64
	Name  string
	Score *float64
	Tags  []string
	Parts []Part
	Flag  bool
}
`},
		// p12: legal but unusual column names (a dot, a space, non-ASCII, upper case, a comma)
		{Name: "p12", Type: "OddNames", Code: `
type Ab struct {
	B int32  ` + "`parquet:\"b\"`" + `
	C string ` + "`parquet:\"c d\"`" + `
}

type OddNames struct {
	Dotted  int64   ` + "`parquet:\"x.y\"`" + `
	A       Ab      ` + "`parquet:\"a\"`" + `
	Unicode *string ` + "`parquet:\"naïve-列\"`" + `
	Upper   bool    ` + "`parquet:\"UPPER\"`" + `
	Other   []int32 ` + "`parquet:\"other,x\"`" + `
}
`},
		// p13: a column NAMED "a.b" next to a group a with a child b — the two paths differ
		// ([a.b] vs [a, b]) but the library keys columns by the dot-joined path (known finding)
		{Name: "p13", Type: "DotClash", Meta: map[string]string{"collapse_kinds": "1"}, Code: `
type Ab struct {
	B int32 ` + "`parquet:\"b\"`" + `
}

type DotClash struct {
	Dotted int64 ` + "`parquet:\"a.b\"`" + `
	A      Ab    ` + "`parquet:\"a\"`" + `
}
`},
		// p14: nine optional ancestors: definition levels 0..9 need four bits (the only width the
		// shallower shapes never reach)
		{Name: "p14", Type: "Chain", Code: `
type H struct {
	V *int64
	W []int32
}
type G struct{ H *H }
type F struct{ G *G }
type E struct{ F *F }
type D struct{ E *E }
type C struct{ D *D }
type B struct{ C *C }
type A struct{ B *B }

type Chain struct {
	ID int32
	A  *A
}
`},
		// p15: lists nested three deep with two leaves in the innermost group: repetition levels
		// 0..3, and the only shape in which a new OUTER element has to reset two deeper indices
		{Name: "p15", Type: "Lists3", Code: `
type Leaf3 struct {
	Key string
	Val *int64
}
type Inner3 struct{ Leaves []Leaf3 }
type Mid3 struct{ Inners []Inner3 }

type Lists3 struct {
	ID   int64
	Mids []Mid3
}
`},
		{Name: "p8", Type: "Wide", Code: `
type Wide struct {
	S1 string
	B1 bool
	S2 *string
	B2 *bool
	S3 string
	B3 bool
	S4 *string
	B4 *bool
}
`},
	}
}
