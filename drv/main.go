package drv

import (
	"flag"
	"fmt"
	"os"
	"runtime/debug"
	"strings"
)

// Ctx is the configuration of one child process.
type Ctx struct {
	Prop     string
	Tier     string
	Thorough bool
	Seed     int64
	Shard    int
	NShards  int
	Only     string
	Args     map[string]string
	Out      *Out
	ShapeSel map[string]bool
	idx      int
}

// Take decides whether this process runs the case (sharding, -only filter) and
// journals it.
func (c *Ctx) Take(caseID string) bool {
	i := c.idx
	c.idx++
	if c.Only != "" {
		if caseID != c.Only {
			return false
		}
	} else if c.NShards > 1 && i%c.NShards != c.Shard {
		return false
	}
	c.Out.Journal(caseID)
	return true
}

// TakeGroup is Take for a group of cases that share expensive setup: the
// decision is made on the group id (prefix match for -only).
func (c *Ctx) TakeGroup(groupID string) bool {
	i := c.idx
	c.idx++
	if c.Only != "" {
		return strings.HasPrefix(c.Only, groupID)
	}
	return c.NShards <= 1 || i%c.NShards == c.Shard
}

// OnlyMatch is for cases inside a taken group.
func (c *Ctx) OnlyMatch(caseID string) bool {
	if c.Only != "" && caseID != c.Only {
		return false
	}
	c.Out.Journal(caseID)
	return true
}

// SelShapes returns the registered shapes selected for this run.
func (c *Ctx) SelShapes() []*Shape {
	var out []*Shape
	for _, s := range Shapes() {
		if len(c.ShapeSel) == 0 || c.ShapeSel[s.Name] {
			out = append(out, s)
		}
	}
	return out
}

// Arg returns a free-form argument.
func (c *Ctx) Arg(k, def string) string {
	if v, ok := c.Args[k]; ok {
		return v
	}
	return def
}

var props = map[string]func(*Ctx){}

// RegisterProp installs a property driver.
func RegisterProp(id string, f func(*Ctx)) { props[id] = f }

// Main is the entry point of every driver binary.
func Main() {
	var (
		prop    = flag.String("prop", "", "property id")
		tier    = flag.String("tier", "quick", "quick|thorough")
		seed    = flag.Int64("seed", 1, "seed")
		shard   = flag.Int("shard", 0, "shard index")
		nshards = flag.Int("nshards", 1, "number of shards")
		only    = flag.String("only", "", "run only this case id")
		out     = flag.String("out", "", "result file (JSON lines)")
		journal = flag.String("journal", "", "journal file")
		shapes  = flag.String("shapes", "", "comma separated shape names (default all registered)")
		args    = flag.String("args", "", "k=v,k=v free-form arguments")
		memlim  = flag.Int64("memlimit", 6<<30, "soft memory limit in bytes")
	)
	flag.Parse()
	debug.SetMemoryLimit(*memlim)
	f, ok := props[*prop]
	if !ok {
		fmt.Fprintf(os.Stderr, "unknown property %q\n", *prop)
		os.Exit(3)
	}
	o, err := NewOut(*out, *journal)
	if err != nil {
		fmt.Fprintln(os.Stderr, err)
		os.Exit(3)
	}
	c := &Ctx{Prop: *prop, Tier: *tier, Thorough: *tier == "thorough", Seed: *seed, Shard: *shard, NShards: *nshards, Only: *only, Out: o,
		Args: map[string]string{}, ShapeSel: map[string]bool{}}
	for _, s := range strings.Split(*shapes, ",") {
		if s != "" {
			c.ShapeSel[s] = true
		}
	}
	for _, kv := range strings.Split(*args, ",") {
		if i := strings.Index(kv, "="); i > 0 {
			c.Args[kv[:i]] = kv[i+1:]
		}
	}
	f(c)
	o.Close()
}
