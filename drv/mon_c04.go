package drv

import (
	"fmt"
	"math/rand"
	"sort"
	"strings"

	"github.com/parsyl/parquet/verifkit/ref/dremel"
	"github.com/parsyl/parquet/verifkit/ref/hybrid"
	"github.com/parsyl/parquet/verifkit/ref/pqfile"
	"github.com/parsyl/parquet/verifkit/ref/thriftc"
)

func init() { RegisterProp("C04", runC04) }

// ForeignChoices records the encoding freedoms exercised by one foreign file.
type ForeignChoices struct {
	Styles       []string // level segmentation style per page (sampled)
	PagesPerCol  []int    // first row group
	Codecs       []int32  // per column, first row group
	Options      []string
	MixedCodecs  bool
	UnevenSplits bool
}

// foreignCase is one foreign-written file.
type foreignCase struct {
	ID      string
	Shape   *Shape
	Recs    []*dremel.Tree
	Part    []int
	File    []byte
	Choices ForeignChoices
}

var styleNames = map[hybrid.Style]string{hybrid.StyleMixed: "mixed", hybrid.StyleRLEOnly: "rle-only", hybrid.StyleBPOnly: "bp-only", hybrid.StyleBigBP: "big-bp", hybrid.StyleTiny: "tiny"}

func nullCountStats(leaf *pqfile.Node, defs []uint8, vals []pqfile.Val, rng *rand.Rand) *thriftc.Value {
	switch rng.Intn(4) {
	case 0:
		return nil
	}
	nulls := int64(0)
	for _, d := range defs {
		if int(d) < leaf.MaxDef {
			nulls++
		}
	}
	// every member of Statistics is optional: null_count is left out of half of the
	// structs (only min/max, only distinct_count, or an empty struct remain)
	var fs []thriftc.Field
	if rng.Intn(2) == 0 {
		fs = append(fs, thriftc.F(3, thriftc.I64(nulls)))
	}
	if rng.Intn(2) == 0 && len(vals) > 0 && leaf.Type != pqfile.TBoolean {
		// correct min/max in the column order
		mn, mx := vals[0], vals[0]
		ok := true
		for _, v := range vals {
			if c, o := statCmp(leaf, v, mn); !o {
				ok = false
			} else if c < 0 {
				mn = v
			}
			if c, o := statCmp(leaf, v, mx); !o {
				ok = false
			} else if c > 0 {
				mx = v
			}
		}
		if ok {
			enc := func(v pqfile.Val) []byte {
				b := pqfile.EncodePlain(leaf.Type, []pqfile.Val{v})
				if leaf.Type == pqfile.TByteArray {
					return b[4:]
				}
				return b
			}
			fs = append(fs, thriftc.F(5, thriftc.Bin(enc(mx))), thriftc.F(6, thriftc.Bin(enc(mn))))
			if rng.Intn(2) == 0 {
				fs = append([]thriftc.Field{thriftc.F(1, thriftc.Bin(enc(mx))), thriftc.F(2, thriftc.Bin(enc(mn)))}, fs...)
			}
		}
	}
	if rng.Intn(3) == 0 {
		fs = append(fs, thriftc.F(4, thriftc.I64(int64(len(vals)))))
	}
	sort.Slice(fs, func(i, j int) bool { return fs[i].ID < fs[j].ID })
	v := thriftc.Struct(fs...)
	return &v
}

// PageSrc is what a foreign page was built from.
type PageSrc struct {
	Reps, Defs []uint8
	Vals       []pqfile.Val
}

// BuildForeign writes recs (split into row groups by part) with the reference
// writer, drawing every encoding freedom from rng. Returns the file, the
// choices, and per (row group, column) the triples for reuse.
func BuildForeign(sc *dremel.Schema, recs []*dremel.Tree, part []int, rng *rand.Rand, mutate func(gi, ci int, ch *pqfile.WChunk)) ([]byte, ForeignChoices, error) {
	var ch ForeignChoices
	var rgs []pqfile.WRowGroup
	uniformCodec := int32(-1)
	if rng.Intn(3) > 0 {
		uniformCodec = int32(rng.Intn(3))
	}
	fileStyle := hybrid.Style(-1)
	if rng.Intn(2) == 0 {
		fileStyle = hybrid.Style(rng.Intn(5))
	}
	ri := 0
	for gi, n := range part {
		batch := recs[ri : ri+n]
		ri += n
		cols := make([][]dremel.Triple, len(sc.Leaves))
		for _, r := range batch {
			sh := sc.Shred(r)
			for i := range sh {
				cols[i] = append(cols[i], sh[i]...)
			}
		}
		rg := pqfile.WRowGroup{NumRows: int64(n)}
		for ci, leaf := range sc.Leaves {
			ts := cols[ci]
			// record boundaries
			var bounds []int
			for i, t := range ts {
				if t.Rep == 0 && i > 0 {
					bounds = append(bounds, i)
				}
			}
			// choose page cuts
			var cuts []int
			if len(bounds) > 0 {
				np := 0
				switch rng.Intn(4) {
				case 0:
					np = 0
				case 1:
					np = 1
				case 2:
					np = rng.Intn(min(len(bounds), 4) + 1)
				default:
					np = rng.Intn(len(bounds) + 1)
				}
				perm := rng.Perm(len(bounds))[:np]
				sort.Ints(perm)
				for _, p := range perm {
					cuts = append(cuts, bounds[p])
				}
			}
			cuts = append(cuts, len(ts))
			codec := uniformCodec
			if codec < 0 {
				codec = int32(rng.Intn(3))
			}
			wc := pqfile.WChunk{Leaf: &leaf.Node, Codec: codec, WithStats: rng.Intn(4) == 0, WithEncodingStats: rng.Intn(4) == 0, WithKV: rng.Intn(8) == 0,
				FileOffsetStyle: rng.Intn(3)}
			if rng.Intn(6) == 0 {
				wc.ExtraMeta = append(wc.ExtraMeta, thriftc.F(14, thriftc.I64(0)), thriftc.F(15, thriftc.I32(0)))
			}
			start := 0
			for _, cut := range cuts {
				pts := ts[start:cut]
				start = cut
				if len(pts) == 0 {
					continue
				}
				var reps, defs []uint8
				var vals []pqfile.Val
				for _, t := range pts {
					reps = append(reps, t.Rep)
					defs = append(defs, t.Def)
					if t.HasVal {
						vals = append(vals, t.V)
					}
				}
				st := fileStyle
				if st < 0 {
					st = hybrid.Style(rng.Intn(5))
				}
				var rs, ds []hybrid.Seg
				if leaf.MaxRep > 0 {
					rs = hybrid.RandomSegs(rng, reps, st)
				}
				if leaf.MaxDef > 0 {
					ds = hybrid.RandomSegs(rng, defs, st)
				}
				if len(ch.Styles) < 8 {
					ch.Styles = append(ch.Styles, styleNames[st])
				}
				body, err := pqfile.DataPageBody(&leaf.Node, reps, defs, vals, rs, ds)
				if err != nil {
					return nil, ch, err
				}
				p := pqfile.WPage{Type: pqfile.PData, NumValues: int32(len(pts)), Body: body, Enc: pqfile.EPlain, DefEnc: pqfile.ERLE, RepEnc: pqfile.ERLE,
					Aux: &PageSrc{Reps: reps, Defs: defs, Vals: vals}, Stats: nullCountStats(&leaf.Node, defs, vals, rng), WithCRC: rng.Intn(5) == 0, SnappyLiteral: rng.Intn(3) == 0, GzipLevel: rng.Intn(4), LongForm: rng.Intn(6) == 0}
				// a column without levels stores none, whatever the header says about their
				// encoding (parquet-mr wrote BIT_PACKED there for years)
				if leaf.MaxRep == 0 && rng.Intn(2) == 0 {
					p.RepEnc = pqfile.EBitPacked
				}
				if leaf.MaxDef == 0 && rng.Intn(2) == 0 {
					p.DefEnc = pqfile.EBitPacked
				}
				if rng.Intn(8) == 0 {
					p.ExtraFields = append(p.ExtraFields, thriftc.F(20, thriftc.I32(7)), thriftc.F(21, thriftc.Str("future")))
				}
				if rng.Intn(8) == 0 {
					p.ExtraDPH = append(p.ExtraDPH, thriftc.F(9, thriftc.Struct(thriftc.F(1, thriftc.I64(1)))))
				}
				wc.Pages = append(wc.Pages, p)
			}
			if mutate != nil {
				mutate(gi, ci, &wc)
			}
			if gi == 0 {
				ch.PagesPerCol = append(ch.PagesPerCol, len(wc.Pages))
				ch.Codecs = append(ch.Codecs, wc.Codec)
			}
			rg.Chunks = append(rg.Chunks, wc)
		}
		if rng.Intn(6) == 0 {
			rg.Extra = append(rg.Extra, thriftc.F(5, thriftc.I64(4)), thriftc.F(6, thriftc.I64(0)), thriftc.F(7, thriftc.I16(int64(gi))))
		}
		rgs = append(rgs, rg)
	}
	for i := range ch.Codecs {
		if ch.Codecs[i] != ch.Codecs[0] {
			ch.MixedCodecs = true
		}
		if ch.PagesPerCol[i] != ch.PagesPerCol[0] {
			ch.UnevenSplits = true
		}
	}
	opt := pqfile.WOptions{}
	if rng.Intn(2) == 0 {
		opt.CreatedBy = "parquet-mr version 1.12.3 (build f8dced182c4c1fbdec6ccb3185537b5a01e6ed6b)"
		ch.Options = append(ch.Options, "created_by")
	}
	if rng.Intn(3) == 0 {
		opt.KeyValues = [][2]string{{"org.apache.spark.version", "3.4.1"}, {"pandas", "{\"index_columns\": []}"}}
		ch.Options = append(ch.Options, "key_value_metadata")
	}
	if rng.Intn(3) == 0 {
		opt.ColumnOrders = true
		ch.Options = append(ch.Options, "column_orders")
	}
	if rng.Intn(4) == 0 {
		opt.TrailerGap = []byte(LongString(1+rng.Intn(300), rng.Int()))
		ch.Options = append(ch.Options, "gap_before_footer")
	}
	if rng.Intn(5) == 0 {
		opt.ExtraFileMeta = []thriftc.Field{thriftc.F(9, thriftc.Bin([]byte{1, 2, 3})), thriftc.F(30, thriftc.Struct(thriftc.F(1, thriftc.I32(1))))}
		ch.Options = append(ch.Options, "unknown_footer_fields")
	}
	if rng.Intn(5) == 0 {
		opt.LongFormFooter = true
		ch.Options = append(ch.Options, "long_form_field_headers")
	}
	if rng.Intn(3) == 0 {
		opt.Version = 2
	}
	opt.RootName = []string{"schema", "root", "spark_schema", "m"}[rng.Intn(4)]
	file, err := pqfile.WriteFile(&sc.Root.Node, rgs, opt)
	return file, ch, err
}

// foreignWorkload enumerates foreign-written files for a shape.
func foreignWorkload(c *Ctx, sh *Shape, count int, f func(fc *foreignCase)) {
	sc := sh.Schema()
	kinds := []GenKind{GenStruct, GenRandom, GenRuns, GenExtremeS, GenUniform, GenBoundary}
	if c.Thorough {
		kinds = append(kinds, GenHuge)
	}
	for k := 0; k < count; k++ {
		kind := kinds[k%len(kinds)]
		if (kind == GenBoundary || kind == GenHuge) && !HasRepeated(sc) {
			kind = GenUniform
		}
		id := fmt.Sprintf("%s/foreign/%s/%d", sh.Name, kind, k)
		if !c.Take(id) {
			continue
		}
		rng := Rng(c.Seed, "c04/"+id)
		var recs []*dremel.Tree
		switch kind {
		case GenStruct:
			recs = GenRecords(sc, GenStruct, 60, nil, c.Thorough)
			if rng.Intn(2) == 0 {
				recs = pickSpread(recs, 1+rng.Intn(len(recs)))
			}
		case GenBoundary:
			recs = GenRecords(sc, kind, 1+rng.Intn(4), rng, false)
		case GenHuge:
			recs = GenRecords(sc, kind, 1, rng, false)
		case GenUniform:
			recs = GenRecords(sc, kind, 1+rng.Intn(700), rng, false)
		default:
			recs = GenRecords(sc, kind, 1+rng.Intn(150), rng, false)
		}
		part := RandomPartition(len(recs), rng)
		file, ch, err := BuildForeign(sc, recs, part, rng, nil)
		if err != nil {
			c.Out.Inconclusive(fmt.Sprintf("reference writer failed on %s: %v", id, err))
			continue
		}
		f(&foreignCase{ID: id, Shape: sh, Recs: recs, Part: part, File: file, Choices: ch})
	}
}

// observeForeign re-parses a foreign file with the reference (it must be
// clean) and records which encoding freedoms the file actually exhibits.
func observeForeign(c *Ctx, fc *foreignCase) bool {
	sc := fc.Shape.Schema()
	d, err := pqfile.Validate(fc.File, pqfile.Expect{Schema: &sc.Root.Node, Codec: -1, Records: int64(len(fc.Recs)), Lenient: true})
	if err != nil {
		c.Out.Inconclusive(fmt.Sprintf("reference writer produced a file the reference parser rejects (%s): %v", fc.ID, err))
		return false
	}
	if len(d.Failures) > 0 {
		c.Out.Inconclusive(fmt.Sprintf("reference writer produced a file the reference validator faults (%s): %s", fc.ID, d.Failures[0]))
		return false
	}
	sigs := 0
	for _, rg := range d.RowGroups {
		for _, ch := range rg.Chunks {
			for _, pd := range ch.Data {
				for _, runs := range [][]hybrid.Run{pd.RepRuns, pd.DefRuns} {
					if len(runs) == 0 {
						continue
					}
					if sigs < 40 {
						s := hybrid.Sig(runs)
						if len(s) > 60 {
							s = s[:60] + "…"
						}
						c.Out.SetAdd("run_signatures_read", s)
						sigs++
					}
					kinds := ""
					for _, r := range runs {
						if r.BitPacked {
							c.Out.Max("max_bitpacked_groups_read", int64(r.Count/8))
							kinds += "B"
							if r.Count/8 > 63 {
								c.Out.Count("bitpacked_runs_over_63_groups", 1)
							}
						} else {
							c.Out.Max("max_rle_run_read", int64(r.Count))
							kinds += "R"
							if r.Count == 1 {
								c.Out.Count("rle_runs_of_length_1", 1)
							}
						}
						c.Out.Count(fmt.Sprintf("run_header_bytes_%d", r.HeaderLen), 1)
					}
					if strings.Contains(kinds, "BR") || strings.Contains(kinds, "RB") {
						c.Out.Count("streams_mixing_run_kinds", 1)
					}
				}
			}
		}
	}
	for _, rg := range d.RowGroups {
		for _, ch := range rg.Chunks {
			for _, p := range ch.Pages {
				switch {
				case p.Stats == nil:
					c.Out.Count("pages_without_statistics", 1)
				case p.Stats.NullCount == nil:
					c.Out.Count("pages_with_statistics_but_no_null_count", 1)
					if ch.Leaf.Type == pqfile.TBoolean && ch.Leaf.MaxDef > 0 && len(ch.Pages) > 1 {
						c.Out.Count("multipage_optional_bool_chunks_without_null_count", 1)
					}
				default:
					c.Out.Count("pages_with_null_count", 1)
				}
			}
		}
	}
	if fc.Choices.MixedCodecs {
		c.Out.Count("mixed_codec_files", 1)
	}
	if fc.Choices.UnevenSplits {
		c.Out.Count("files_with_per_column_page_splits", 1)
	}
	for _, o := range fc.Choices.Options {
		c.Out.Count("option_"+o, 1)
	}
	return true
}

func runC04(c *Ctx) {
	count := 70
	if c.Thorough {
		count = 1500
	}
	for _, sh := range c.SelShapes() {
		foreignWorkload(c, sh, count, func(fc *foreignCase) {
			c.Out.Count("cases", 1)
			if !observeForeign(c, fc) {
				return
			}
			c.Out.Count("files", 1)
			c.Out.Count("records", int64(len(fc.Recs)))
			sc := sh.Schema()
			sig := fmt.Sprintf("%s|%v|%v|%v|%v|%d", sh.Name, fc.Choices.Styles, fc.Choices.PagesPerCol, fc.Choices.Codecs, fc.Choices.Options, len(fc.File))
			c.Out.Distinct(sig, true)
			res := ReadAll(sh, NewSource(fc.File), len(fc.Recs)+5)
			bad := func(kind, detail string) {
				c.Out.Violate(Violation{Prop: "C04", Key: "shape=" + sh.Name + ";kind=" + kind, Case: fc.ID, Shape: sh.Name,
					Detail: fmt.Sprintf("conformant file written by the reference writer (%d bytes, %d records in row groups %v; choices %+v): %s", len(fc.File), len(fc.Recs), clipInts(fc.Part), fc.Choices, detail)})
			}
			switch {
			case res.Panic != nil:
				bad("panic", fmt.Sprintf("%v\n%s", res.Panic, clip(res.Stack)))
			case res.CtorErr != nil:
				bad("error", fmt.Sprintf("NewParquetReader: %v", res.CtorErr))
			case res.Err != nil:
				bad("error", fmt.Sprintf("Error() = %v after %d rows", res.Err, len(res.Recs)))
			case res.Rows != int64(len(fc.Recs)):
				bad("rows", fmt.Sprintf("Rows() = %d, file holds %d", res.Rows, len(fc.Recs)))
			default:
				if diff := CompareRecs(sc, fc.Recs, res.Recs); diff != "" {
					bad("mismatch", diff)
				}
			}
			c.Out.Sample(map[string]interface{}{"case": fc.ID, "records": len(fc.Recs), "row_groups": clipInts(fc.Part), "file_bytes": len(fc.File), "choices": fc.Choices})
		})
	}
}

// runC16Foreign: the introspection calls on foreign-written files (optional
// metadata present, other layouts than the library's own).
func runC16Foreign(c *Ctx) {
	count := 25
	if c.Thorough {
		count = 400
	}
	for _, sh := range c.SelShapes() {
		foreignWorkload(c, sh, count, func(fc *foreignCase) {
			c.Out.Count("cases", 1)
			if !observeForeign(c, fc) {
				return
			}
			c.Out.Count("files_foreign_written", 1)
			c.Out.Distinct(fmt.Sprintf("foreign|%s|%v|%v|%v", sh.Name, fc.Choices.PagesPerCol, fc.Choices.Codecs, fc.Choices.Options), len(fc.Part) >= 2 || fc.Choices.UnevenSplits)
			kind, detail := CheckIntrospection(c, fc.File)
			if kind != "" {
				c.Out.Violate(Violation{Prop: "C16", Key: "origin=foreign;kind=" + kind, Case: fc.ID, Shape: sh.Name, Detail: detail})
			}
		})
	}
}
