package drv

import (
	"bytes"
	"encoding/binary"
	"fmt"
	"math/rand"
	"strings"

	"github.com/parsyl/parquet"
	"github.com/parsyl/parquet/internal/rle"
	sch "github.com/parsyl/parquet/schema"
	"github.com/parsyl/parquet/verifkit/ref/hybrid"
	"github.com/parsyl/parquet/verifkit/ref/pqfile"
	"github.com/parsyl/parquet/verifkit/ref/thriftc"
)

func init() { RegisterProp("C07", runC07) }

type c07 struct {
	c     *Ctx
	nviol map[string]int
}

func (s *c07) bad(kind string, w int, detail string) {
	s.nviol[kind]++
	if s.nviol[kind] > 3 {
		return
	}
	s.c.Out.Violate(Violation{Prop: "C07", Key: fmt.Sprintf("width=%d;kind=%s", w, kind), Case: "-", Detail: detail})
}

func showSeq(v []uint8) string {
	if len(v) <= 80 {
		return fmt.Sprint(v)
	}
	return fmt.Sprintf("%v…(%d values; run-length form: %s)", v[:40], len(v), rlForm(v))
}

func rlForm(v []uint8) string {
	var sb strings.Builder
	for i := 0; i < len(v); {
		j := i
		for j < len(v) && v[j] == v[i] {
			j++
		}
		fmt.Fprintf(&sb, "%dx%d ", v[i], j-i)
		i = j
		if sb.Len() > 400 {
			sb.WriteString("…")
			break
		}
	}
	return sb.String()
}

// encodeCheck: the library's encoder on seq must produce a well-formed stream
// that the specification decoder turns back into seq.
func (s *c07) encodeCheck(w int, seq []uint8, id string) {
	enc, err := rle.New(int32(w), len(seq))
	if err != nil {
		s.bad("encoder_error", w, err.Error())
		return
	}
	for _, v := range seq {
		enc.Write(v)
	}
	b := enc.Bytes()
	s.c.Out.Count("encoder_sequences", 1)
	res, err := hybrid.CheckEncodes(b, w, seq)
	if err != nil {
		s.bad("encoder_malformed", w, fmt.Sprintf("%s: encoding of %s at width %d is %x: %v", id, showSeq(seq), w, clipBytes(b), err))
		return
	}
	if res.Consumed != len(b) {
		s.bad("encoder_length", w, fmt.Sprintf("%s: encoder returned %d bytes, the length prefix covers %d", id, len(b), res.Consumed))
		return
	}
	sig := hybrid.Sig(res.Runs)
	if len(sig) <= 40 {
		s.c.Out.SetAdd("encoder_run_shapes", sig)
	}
	for i, r := range res.Runs {
		if r.BitPacked {
			s.c.Out.Max("encoder_max_bitpacked_groups", int64(r.Count/8))
			if r.Count/8 == 63 && i < len(res.Runs)-1 {
				s.c.Out.Count("encoder_closed_run_at_63_groups", 1)
			}
		} else {
			s.c.Out.Max("encoder_max_rle_count", int64(r.Count))
		}
		s.c.Out.Count(fmt.Sprintf("encoder_header_bytes_%d", r.HeaderLen), 1)
	}
}

func clipBytes(b []byte) []byte {
	if len(b) > 64 {
		return b[:64]
	}
	return b
}

// decodeCheck: the library's decoder on a well-formed foreign stream must
// return seq (plus < 8 padding values) and consume exactly the stream.
func (s *c07) decodeCheck(w int, seq []uint8, segs []hybrid.Seg, id string) {
	b, err := hybrid.Encode(seq, w, segs)
	if err != nil {
		s.c.Out.Inconclusive("reference encoder: " + err.Error())
		return
	}
	// the stream is followed by other data in a page: decoding must stop at its end
	trailer := []byte{0xAA, 0x55, 0xAA, 0x55, 0xAA}
	buf := bytes.NewBuffer(append(append([]byte{}, b...), trailer...))
	dec, _ := rle.New(int32(w), 0)
	s.c.Out.Count("decoder_streams", 1)
	out, n, err := func() (o []uint8, n int, e error) {
		defer func() {
			if r := recover(); r != nil {
				e = fmt.Errorf("panic: %v", r)
			}
		}()
		return dec.Read(buf)
	}()
	desc := func() string {
		return fmt.Sprintf("%s: well-formed stream %x (width %d, runs %v) of %s", id, clipBytes(b), w, segSig(segs), showSeq(seq))
	}
	if err != nil {
		s.bad("decoder_rejects", w, desc()+fmt.Sprintf(": decoder returned %v", err))
		return
	}
	if n != len(b) {
		s.bad("decoder_consumed", w, desc()+fmt.Sprintf(": decoder reports %d bytes consumed, the stream is %d bytes", n, len(b)))
		return
	}
	if buf.Len() != len(trailer) {
		s.bad("decoder_consumed", w, desc()+fmt.Sprintf(": %d bytes left in the reader, %d follow the stream", buf.Len(), len(trailer)))
		return
	}
	if len(out) < len(seq) || len(out)-len(seq) >= 8 {
		s.bad("decoder_count", w, desc()+fmt.Sprintf(": decoder returned %d values", len(out)))
		return
	}
	for i := range seq {
		if out[i] != seq[i] {
			s.bad("decoder_values", w, desc()+fmt.Sprintf(": value %d decodes to %d", i, out[i]))
			return
		}
	}
	for _, sg := range segs {
		if sg.BitPacked {
			g := (sg.N + 7) / 8
			s.c.Out.Max("decoder_max_bitpacked_groups", int64(g))
			if g > 63 {
				s.c.Out.Count("decoder_runs_over_63_groups", 1)
			}
			if g >= 8192 {
				s.c.Out.Count("decoder_bitpacked_3byte_header", 1)
			}
		} else {
			s.c.Out.Max("decoder_max_rle_count", int64(sg.N))
			if sg.N >= 64 {
				s.c.Out.Count("decoder_rle_2byte_header", 1)
			}
			if sg.N >= 8192 {
				s.c.Out.Count("decoder_rle_3byte_header", 1)
			}
		}
	}
}

func segSig(segs []hybrid.Seg) string {
	var parts []string
	for i, sg := range segs {
		if i >= 12 {
			parts = append(parts, "…")
			break
		}
		if sg.BitPacked {
			parts = append(parts, fmt.Sprintf("B%d(%d)", (sg.N+7)/8, sg.N))
		} else {
			parts = append(parts, fmt.Sprintf("R%d", sg.N))
		}
	}
	return strings.Join(parts, ",")
}

// structuredSeq builds a sequence from segments {constant run, random, ramp}
// with lengths around the encoding's boundaries, at a given alignment.
func structuredSeq(rng *rand.Rand, w int, thorough bool) []uint8 {
	lens := []int{1, 2, 7, 8, 9, 15, 16, 17, 23, 24, 25, 63, 64, 65, 127, 128, 129, 503, 504, 505, 511, 512, 513, 1008, 1009}
	if thorough && rng.Intn(40) == 0 {
		lens = []int{8191, 8192, 8193, 16383, 16384, 16385, 65535, 65536, 65544}
	}
	m := uint8(1<<uint(w) - 1)
	var seq []uint8
	nseg := 1 + rng.Intn(5)
	// alignment prefix
	for i, a := 0, rng.Intn(8); i < a; i++ {
		seq = append(seq, uint8(rng.Intn(int(m)+1)))
	}
	for k := 0; k < nseg; k++ {
		l := lens[rng.Intn(len(lens))]
		if len(seq)+l > 70000 {
			l = 9
		}
		switch rng.Intn(4) {
		case 0, 1: // constant
			v := uint8(rng.Intn(int(m) + 1))
			for i := 0; i < l; i++ {
				seq = append(seq, v)
			}
		case 2: // random, but never 8 equal in a row
			for i := 0; i < l; i++ {
				seq = append(seq, uint8(rng.Intn(int(m)+1)))
			}
		default: // ramp / alternation (no repeats at all)
			for i := 0; i < l; i++ {
				seq = append(seq, uint8(i)&m)
			}
		}
	}
	return seq
}

func runC07(c *Ctx) {
	s := &c07{c: c, nviol: map[string]int{}}
	// (1) exhaustive short sequences
	encMax := map[int]int{1: 14, 2: 8, 3: 5, 4: 4}
	decMax := map[int]int{1: 10, 2: 5, 3: 4, 4: 3}
	if c.Thorough {
		encMax = map[int]int{1: 20, 2: 11, 3: 7, 4: 6}
		decMax = map[int]int{1: 13, 2: 7, 3: 5, 4: 4}
	}
	for w := 1; w <= 4; w++ {
		base := 1 << uint(w)
		for l := 0; l <= encMax[w]; l++ {
			total := 1
			for i := 0; i < l; i++ {
				total *= base
			}
			// shard by blocks of the enumeration
			blocks := 1
			if total > 4096 {
				blocks = 64
			}
			for b := 0; b < blocks; b++ {
				id := fmt.Sprintf("exh/w=%d/len=%d/block=%d", w, l, b)
				if !c.Take(id) {
					continue
				}
				c.Out.Count("cases", 1)
				c.Out.Distinct(id, l > 0)
				seq := make([]uint8, l)
				for x := b * (total / blocks); x < (b+1)*(total/blocks); x++ {
					y := x
					for i := 0; i < l; i++ {
						seq[i] = uint8(y % base)
						y /= base
					}
					s.encodeCheck(w, seq, id)
					if l <= decMax[w] {
						hybrid.AllSegs(seq, func(segs []hybrid.Seg) {
							s.decodeCheck(w, seq, segs, id)
							c.Out.Count("decoder_exhaustive_segmentations", 1)
						})
					}
				}
				c.Out.Count(fmt.Sprintf("exhaustive_sequences_w%d", w), int64(total/blocks))
			}
		}
		c.Out.Max(fmt.Sprintf("exhaustive_encoder_len_w%d", w), int64(encMax[w]))
		c.Out.Max(fmt.Sprintf("exhaustive_decoder_len_w%d", w), int64(decMax[w]))
	}
	// (2) run-structured sequences around the boundaries
	n := 6000
	if c.Thorough {
		n = 1000000
	}
	for k := 0; k < n; k++ {
		w := 1 + k%4
		id := fmt.Sprintf("structured/w=%d/%d", w, k)
		if !c.Take(id) {
			continue
		}
		rng := Rng(c.Seed, "c07/"+id)
		seq := structuredSeq(rng, w, c.Thorough)
		c.Out.Count("cases", 1)
		c.Out.Count("structured_sequences", 1)
		c.Out.Distinct(id, true)
		s.encodeCheck(w, seq, id)
		for _, st := range []hybrid.Style{hybrid.StyleMixed, hybrid.StyleMixed, hybrid.StyleRLEOnly, hybrid.StyleBPOnly, hybrid.StyleBigBP, hybrid.StyleTiny} {
			if st == hybrid.StyleTiny && len(seq) > 3000 {
				continue
			}
			s.decodeCheck(w, seq, hybrid.RandomSegs(rng, seq, st), id)
		}
		if k < 4 {
			c.Out.Sample(map[string]interface{}{"case": id, "width": w, "length": len(seq), "run_length_form": rlForm(seq)})
		}
	}
	// (2b) a fixed set of long sequences: 3-byte run headers (RLE runs >= 8192 values,
	// bit-packed runs >= 8192 groups) must be exercised in every tier
	for w := 1; w <= 4; w++ {
		m := uint8(1<<uint(w) - 1)
		for li, l := range []int{8191, 8192, 8193, 16384, 65544} {
			for kind := 0; kind < 2; kind++ {
				id := fmt.Sprintf("long/w=%d/len=%d/kind=%d", w, l, kind)
				if !c.Take(id) {
					continue
				}
				seq := make([]uint8, l+3)
				for i := range seq {
					if kind == 0 {
						seq[i] = m // one long constant run (after which the value changes)
						if i >= l {
							seq[i] = 0
						}
					} else {
						seq[i] = uint8(i+li) & m // no repeats: bit-packed only
						if w == 1 {
							seq[i] = uint8((i / 3) & 1) // width 1: short runs, never 8 equal
						}
					}
				}
				c.Out.Count("cases", 1)
				c.Out.Count("long_sequences", 1)
				c.Out.Distinct(id, true)
				s.encodeCheck(w, seq, id)
				rng := Rng(c.Seed, "c07/"+id)
				for _, st := range []hybrid.Style{hybrid.StyleBigBP, hybrid.StyleRLEOnly, hybrid.StyleMixed} {
					if st == hybrid.StyleRLEOnly && kind == 1 {
						continue
					}
					segs := hybrid.RandomSegs(rng, seq, st)
					if st == hybrid.StyleBigBP {
						segs = []hybrid.Seg{{BitPacked: true, N: len(seq)}} // a single run of > 8192 groups when long enough
					}
					s.decodeCheck(w, seq, segs, id)
				}
			}
		}
	}
	// (3) the same through the public column API (writeLevels/readLevels/DoRead trimming)
	runC07Public(c, s)
}

// ---- public column API route ----

type nullStats struct{}

func (nullStats) NullCount() *int64     { return nil }
func (nullStats) DistinctCount() *int64 { return nil }
func (nullStats) Min() []byte           { return nil }
func (nullStats) Max() []byte           { return nil }

func int32Type(se *sch.SchemaElement) {
	t := sch.Type_INT32
	se.Type = &t
}

// levelField builds an OptionalField whose definition levels have width wDef
// and (if wRep > 0) repetition levels of width wRep.
func levelField(wDef, wRep int) (parquet.OptionalField, *parquet.Metadata, int, int) {
	maxDef := 1<<uint(wDef) - 1
	maxRep := 0
	if wRep > 0 {
		maxRep = 1<<uint(wRep) - 1
	}
	if maxRep > maxDef {
		maxRep = maxDef
	}
	types := make([]int, maxDef)
	path := make([]string, maxDef)
	for i := range types {
		types[i] = 1
		if i < maxRep {
			types[i] = 2
		}
		path[i] = fmt.Sprintf("n%d", i)
	}
	f := parquet.NewOptionalField(path, types, parquet.OptionalFieldUncompressed)
	meta := parquet.New(parquet.Field{Name: strings.Join(path, "."), Path: path, Types: types, Type: int32Type, RepetitionType: parquet.RepetitionOptional})
	return f, meta, maxDef, maxRep
}

func runC07Public(c *Ctx, s *c07) {
	n := 600
	if c.Thorough {
		n = 100000
	}
	for k := 0; k < n; k++ {
		wDef := 1 + k%4
		wRep := (k / 4) % 3 // 0: no repetition levels
		id := fmt.Sprintf("public/wdef=%d/wrep=%d/%d", wDef, wRep, k)
		if !c.Take(id) {
			continue
		}
		c.Out.Count("cases", 1)
		c.Out.Distinct(id, true)
		rng := Rng(c.Seed, "c07/"+id)
		f, meta, maxDef, maxRep := levelField(wDef, wRep)
		// levels: structured sequences clipped to the maxima; values for def == max
		defs := structuredSeq(rng, wDef, false)
		for i := range defs {
			if int(defs[i]) > maxDef {
				defs[i] = uint8(maxDef)
			}
		}
		var reps []uint8
		if maxRep > 0 {
			wr := pqfile.LevelWidth(maxRep)
			reps = make([]uint8, len(defs))
			src := structuredSeq(rng, wr, false)
			for i := range reps {
				if i < len(src) {
					reps[i] = src[i]
				}
				if int(reps[i]) > maxRep {
					reps[i] = uint8(maxRep)
				}
			}
			if len(reps) > 0 {
				reps[0] = 0
			}
		}
		nvals := 0
		for _, d := range defs {
			if int(d) == maxDef {
				nvals++
			}
		}
		vals := make([]byte, 4*nvals)
		for i := 0; i < nvals; i++ {
			binary.LittleEndian.PutUint32(vals[4*i:], uint32(1000+i))
		}
		if len(defs) == 0 {
			continue
		}
		// write side
		f.Defs = defs
		f.Reps = reps
		sink := NewSink()
		if err := f.DoWrite(sink, meta, vals, len(defs), nullStats{}); err != nil {
			s.bad("public_write_error", wDef, fmt.Sprintf("%s: DoWrite: %v", id, err))
			continue
		}
		c.Out.Count("public_pages_written", 1)
		pg, err := pqfile.ReadPage(sink.Buf, 0)
		if err != nil {
			s.bad("public_page_unparseable", wDef, fmt.Sprintf("%s: %v", id, err))
			continue
		}
		body := pg.Body
		pos := 0
		okw := true
		if maxRep > 0 {
			res, err := hybrid.CheckEncodes(body[pos:], pqfile.LevelWidth(maxRep), reps)
			if err != nil {
				s.bad("public_rep_levels", wDef, fmt.Sprintf("%s: repetition levels %s written as %x: %v", id, showSeq(reps), clipBytes(body[pos:]), err))
				okw = false
			} else {
				pos += res.Consumed
			}
		}
		if okw {
			res, err := hybrid.CheckEncodes(body[pos:], wDef, defs)
			if err != nil {
				s.bad("public_def_levels", wDef, fmt.Sprintf("%s: definition levels %s written as %x: %v", id, showSeq(defs), clipBytes(body[pos:]), err))
			} else {
				pos += res.Consumed
				if !bytes.Equal(body[pos:], vals) {
					s.bad("public_values", wDef, fmt.Sprintf("%s: value section differs from what was handed to DoWrite", id))
				}
			}
		}
		// read side: a page assembled by the reference around foreign-encoded levels
		var page []byte
		st := hybrid.Style(rng.Intn(5))
		if maxRep > 0 {
			b, _ := hybrid.Encode(reps, pqfile.LevelWidth(maxRep), hybrid.RandomSegs(rng, reps, st))
			page = append(page, b...)
		}
		b, _ := hybrid.Encode(defs, wDef, hybrid.RandomSegs(rng, defs, st))
		page = append(page, b...)
		page = append(page, vals...)
		wp := pqfile.WPage{Type: pqfile.PData, NumValues: int32(len(defs)), Body: page, Enc: pqfile.EPlain, DefEnc: pqfile.ERLE, RepEnc: pqfile.ERLE}
		hdr := thriftc.EncodeStruct(thriftc.Struct(thriftc.F(1, thriftc.I32(0)), thriftc.F(2, thriftc.I32(int64(len(page)))), thriftc.F(3, thriftc.I32(int64(len(page)))),
			thriftc.F(5, thriftc.Struct(thriftc.F(1, thriftc.I32(int64(wp.NumValues))), thriftc.F(2, thriftc.I32(0)), thriftc.F(3, thriftc.I32(3)), thriftc.F(4, thriftc.I32(3))))))
		chunk := append(append([]byte{}, hdr...), page...)
		f2, _, _, _ := levelField(wDef, wRep)
		rr, _, err := func() (r interface{ Len() int }, sizes []int, e error) {
			defer func() {
				if p := recover(); p != nil {
					e = fmt.Errorf("panic: %v", p)
				}
			}()
			rd, sz, e := f2.DoRead(NewSource(chunk), parquet.Page{N: len(defs), Size: len(chunk), Codec: sch.CompressionCodec_UNCOMPRESSED})
			if e != nil {
				return nil, nil, e
			}
			return rd.(*bytes.Buffer), sz, nil
		}()
		c.Out.Count("public_pages_read", 1)
		if err != nil {
			s.bad("public_read_error", wDef, fmt.Sprintf("%s: DoRead on a conformant page (levels %s, style %s): %v", id, showSeq(defs), styleNames[st], err))
			continue
		}
		if !bytes.Equal(f2.Defs, defs) {
			s.bad("public_read_defs", wDef, fmt.Sprintf("%s: DoRead returned definition levels %s for %s", id, showSeq(f2.Defs), showSeq(defs)))
			continue
		}
		if maxRep > 0 && !bytes.Equal(f2.Reps, reps) {
			s.bad("public_read_reps", wDef, fmt.Sprintf("%s: DoRead returned repetition levels %s for %s", id, showSeq(f2.Reps), showSeq(reps)))
			continue
		}
		if rr.Len() != len(vals) {
			s.bad("public_read_values", wDef, fmt.Sprintf("%s: DoRead left %d value bytes, the page has %d", id, rr.Len(), len(vals)))
		}
	}
}

// runC17InSitu: bit-packed runs in level sections written through the public
// column API must unpack (by the reference) to the levels handed in, and the
// converse on the read side. Level sequences avoid 8 equal values in a row so
// that every group goes through Pack/Unpack.
func runC17InSitu(c *Ctx) {
	s := &c07{c: c, nviol: map[string]int{}}
	n := 200
	if c.Thorough {
		n = 20000
	}
	for k := 0; k < n; k++ {
		w := 1 + k%4
		id := fmt.Sprintf("insitu/w=%d/%d", w, k)
		if !c.Take(id) {
			continue
		}
		c.Out.Count("cases", 1)
		rng := Rng(c.Seed, "c17/"+id)
		f, meta, maxDef, _ := levelField(w, 0)
		l := 8 * (1 + rng.Intn(80))
		if rng.Intn(3) == 0 {
			l += rng.Intn(8)
		}
		defs := make([]uint8, l)
		for i := range defs {
			v := uint8(rng.Intn(maxDef + 1))
			if i > 0 && v == defs[i-1] {
				v = (v + 1) % uint8(maxDef+1)
			}
			defs[i] = v
		}
		f.Defs = defs
		sink := NewSink()
		nvals := 0
		for _, d := range defs {
			if int(d) == maxDef {
				nvals++
			}
		}
		if err := f.DoWrite(sink, meta, make([]byte, 4*nvals), len(defs), nullStats{}); err != nil {
			c.Out.Violate(Violation{Prop: "C17", Key: "insitu;kind=write_error", Case: id, Detail: err.Error()})
			continue
		}
		pg, err := pqfile.ReadPage(sink.Buf, 0)
		if err != nil {
			c.Out.Violate(Violation{Prop: "C17", Key: "insitu;kind=page", Case: id, Detail: err.Error()})
			continue
		}
		res, err := hybrid.CheckEncodes(pg.Body, w, defs)
		if err != nil {
			c.Out.Violate(Violation{Prop: "C17", Key: fmt.Sprintf("insitu;width=%d;kind=written_groups", w), Case: id,
				Detail: fmt.Sprintf("levels %s written through OptionalField.DoWrite unpack (LSB-first, by the reference) to something else: %v", showSeq(defs), err)})
			continue
		}
		for _, r := range res.Runs {
			if r.BitPacked {
				c.Out.Count("insitu_groups_written", int64(r.Count/8))
			}
		}
		// read side
		b, _ := hybrid.Encode(defs, w, []hybrid.Seg{{BitPacked: true, N: len(defs)}})
		page := append(b, make([]byte, 4*nvals)...)
		hdr := thriftc.EncodeStruct(thriftc.Struct(thriftc.F(1, thriftc.I32(0)), thriftc.F(2, thriftc.I32(int64(len(page)))), thriftc.F(3, thriftc.I32(int64(len(page)))),
			thriftc.F(5, thriftc.Struct(thriftc.F(1, thriftc.I32(int64(len(defs)))), thriftc.F(2, thriftc.I32(0)), thriftc.F(3, thriftc.I32(3)), thriftc.F(4, thriftc.I32(3))))))
		chunk := append(append([]byte{}, hdr...), page...)
		f2, _, _, _ := levelField(w, 0)
		_, _, err = f2.DoRead(NewSource(chunk), parquet.Page{N: len(defs), Size: len(chunk), Codec: sch.CompressionCodec_UNCOMPRESSED})
		if err != nil || !bytes.Equal(f2.Defs, defs) {
			c.Out.Violate(Violation{Prop: "C17", Key: fmt.Sprintf("insitu;width=%d;kind=read_groups", w), Case: id,
				Detail: fmt.Sprintf("a single bit-packed run (LSB-first) of %s read through OptionalField.DoRead gives %s (err %v)", showSeq(defs), showSeq(f2.Defs), err)})
			continue
		}
		c.Out.Count("insitu_groups_read", int64((len(defs)+7)/8))
	}
	_ = s
}
