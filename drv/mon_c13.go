package drv

import (
	"bytes"
	"crypto/sha256"
	"encoding/json"
	"expvar"
	"fmt"
	"io"
	"math/rand"
	"runtime"
	"sort"
	"sync"
	"time"

	"github.com/parsyl/parquet/verifkit/ref/dremel"
	"github.com/parsyl/parquet/verifkit/ref/pqfile"
)

func init() { RegisterProp("C13", runC13) }

// c13case is one writer history (and the read of its output).
type c13case struct {
	ID    string
	Shape *Shape
	Recs  []*dremel.Tree
	Part  []int
	Page  int
	Codec int
	Ref   []byte // bytes of the sequential reference execution
	// Shared: the writer is constructed from the process-wide option slice of its
	// (page, codec) — the same slice for every instance with these options
	Shared bool
}

func c13Cases(c *Ctx, n int) []*c13case {
	var out []*c13case
	shs := c.SelShapes()
	for k := 0; k < n; k++ {
		sh := shs[k%len(shs)]
		id := fmt.Sprintf("%s/h%d", sh.Name, k)
		rng := Rng(c.Seed, "c13/"+id)
		kinds := []GenKind{GenRandom, GenExtremeS, GenRuns, GenStruct}
		kind := kinds[rng.Intn(len(kinds))]
		nrec := 1 + rng.Intn(40)
		recs := GenRecords(sh.Schema(), kind, nrec, rng, false)
		if kind == GenStruct {
			recs = pickSpread(recs, min(len(recs), nrec))
		}
		out = append(out, &c13case{ID: id, Shape: sh, Recs: recs, Part: RandomPartition(len(recs), rng), Page: []int{1, 2, 3, 7, 50, 1000}[rng.Intn(6)], Codec: c13Codec(k, rng), Shared: k%2 == 0})
	}
	return out
}

// c13Codec: every tenth history uses gzip (a fixed share, so that the gzip code paths are
// always represented by several histories; under -race a gzip writer is too slow for more),
// the others are uncompressed or snappy.
func c13Codec(k int, rng *rand.Rand) int {
	r := rng.Intn(9)
	if k%10 == 9 {
		return CodecGzip
	}
	return []int{0, 0, 0, 1, 1, 1, 1, 1, 0}[r]
}

// yieldSink perturbs the schedule at sink writes: exactly where a prematurely
// released buffer would be grabbed by a neighbour (between a page header and
// its body, before Close).
type yieldSink struct {
	Sink
	rng    *rand.Rand
	events *[]int64
}

func (y *yieldSink) Write(p []byte) (int, error) {
	switch y.rng.Intn(6) {
	case 0:
		runtime.Gosched()
	case 1:
		time.Sleep(time.Duration(1+y.rng.Intn(20)) * time.Microsecond)
	}
	if y.events != nil {
		*y.events = append(*y.events, time.Now().UnixNano())
	}
	return y.Sink.Write(p)
}

func (cs *c13case) runWriter(rng *rand.Rand, events *[]int64) ([]byte, string) {
	ys := &yieldSink{Sink: Sink{FailAt: -1}, rng: rng, events: events}
	sc := cs.Shape.Schema()
	var perr interface{}
	var werr error
	func() {
		defer func() { perr = recover() }()
		w, err := cs.newWriter(ys)
		if err != nil {
			werr = err
			return
		}
		i := 0
		for _, n := range cs.Part {
			for j := 0; j < n; j++ {
				w.Add(sc.ToGo(cs.Recs[i]).Interface())
				i++
			}
			if err := w.Write(); err != nil {
				werr = err
				return
			}
		}
		werr = w.Close()
	}()
	if perr != nil {
		return nil, fmt.Sprintf("writer panicked: %v", perr)
	}
	if werr != nil {
		return nil, fmt.Sprintf("writer error: %v", werr)
	}
	return ys.Buf, ""
}

func (cs *c13case) newWriter(w io.Writer) (W, error) {
	if cs.Shared && cs.Shape.NewWriterShared != nil {
		return cs.Shape.NewWriterShared(w, cs.Page, cs.Codec)
	}
	return cs.Shape.NewWriter(w, cs.Page, cs.Codec)
}

// runInterleaved runs the histories of a and b (which may be the same history)
// as two writer instances alive at the same time on ONE goroutine, their calls
// merged in an order drawn from rng. Each instance must produce exactly the
// bytes of its sequential reference.
func runInterleaved(a, b *c13case, rng *rand.Rand) (ba, bb []byte, msg string) {
	type inst struct {
		cs   *c13case
		sink *Sink
		w    W
		ops  []int // -1 new, -2 write, -3 close, >= 0 add record i
		pos  int
	}
	mk := func(cs *c13case) *inst {
		in := &inst{cs: cs, sink: &Sink{FailAt: -1}}
		in.ops = append(in.ops, -1)
		i := 0
		for _, n := range cs.Part {
			for j := 0; j < n; j++ {
				in.ops = append(in.ops, i)
				i++
			}
			in.ops = append(in.ops, -2)
		}
		in.ops = append(in.ops, -3)
		return in
	}
	ins := []*inst{mk(a), mk(b)}
	defer func() {
		if e := recover(); e != nil {
			msg = fmt.Sprintf("panic: %v", e)
		}
	}()
	for ins[0].pos < len(ins[0].ops) || ins[1].pos < len(ins[1].ops) {
		k := rng.Intn(2)
		if ins[k].pos >= len(ins[k].ops) {
			k = 1 - k
		}
		in := ins[k]
		// a burst of 1..4 calls on this instance
		for n := 1 + rng.Intn(4); n > 0 && in.pos < len(in.ops); n-- {
			op := in.ops[in.pos]
			in.pos++
			var err error
			switch op {
			case -1:
				in.w, err = in.cs.newWriter(in.sink)
			case -2:
				err = in.w.Write()
			case -3:
				err = in.w.Close()
			default:
				in.w.Add(in.cs.Shape.Schema().ToGo(in.cs.Recs[op]).Interface())
			}
			if err != nil {
				return nil, nil, fmt.Sprintf("instance %d (%s): %v", k, in.cs.ID, err)
			}
		}
	}
	return ins[0].sink.Buf, ins[1].sink.Buf, ""
}

func (cs *c13case) runReader(rng *rand.Rand) string {
	src := NewSource(cs.Ref)
	if rng != nil {
		src.Frag = func(want int, off int64) int {
			if rng.Intn(8) == 0 {
				runtime.Gosched()
			}
			return want
		}
	}
	res := ReadAll(cs.Shape, src, len(cs.Recs)+5)
	// the consumer owns the records it was given: it edits them in place (every pointee and
	// slice element overwritten) — what another instance returned or will return must not care
	for _, h := range res.Held {
		Scramble(h.Elem())
	}
	if res.Panic != nil {
		return fmt.Sprintf("reader panicked: %v", res.Panic)
	}
	if res.Reported() {
		return fmt.Sprintf("reader error: ctor=%v err=%v", res.CtorErr, res.Err)
	}
	return CompareRecs(cs.Shape.Schema(), cs.Recs, res.Recs)
}

// faultyOps leaves the process in whatever state FAILED operations leave it in:
// a reader over a damaged copy of a file (a corrupted page, a truncated file)
// and a writer whose sink fails. Errors and panics are expected and ignored;
// what matters is that later instances are not affected.
func faultyOps(cs *c13case, rng *rand.Rand) {
	if len(cs.Ref) > 64 {
		bad := append([]byte{}, cs.Ref...)
		switch rng.Intn(3) {
		case 0, 1:
			// damage at the codec level in one page body: a wrong length preamble (snappy) or a
			// wrong magic (gzip) makes decompression FAIL with the staging buffers in hand.
			// (Arbitrary byte damage is not used: a damaged run header makes internal/rle
			// allocate tens of GiB — resource exhaustion on corrupt input, which none of the
			// properties speaks about — and kills the process.)
			if pf, err := pqfile.Parse(bad); err == nil && len(pf.RowGroups) > 0 {
				rg := pf.RowGroups[rng.Intn(len(pf.RowGroups))]
				ch := rg.Columns[rng.Intn(len(rg.Columns))]
				if pages, err := pqfile.WalkChunk(bad, ch.DataPageOffset, ch.TotalComp); err == nil && len(pages) > 0 {
					pg := pages[rng.Intn(len(pages))]
					body := pg.Offset + pg.HeaderLen
					if int(pg.Comp) > 2 && body+2 < len(bad) {
						switch cs.Codec {
						case CodecSnappy:
							if bad[body] < 0x7e {
								bad[body]++
							}
						case CodecGzip:
							if rng.Intn(2) == 0 {
								bad[body] ^= 0xFF // wrong magic: refused before inflating
							} else {
								bad[body+int(pg.Comp)-5] ^= 0x01 // wrong CRC-32 in the trailer: fails after inflating
							}
						}
					}
				}
			}
		default: // a source that fails in the middle of the data area
		}
		func() {
			defer func() { recover() }()
			src := NewSource(bad)
			if rng.Intn(2) == 0 || cs.Codec == CodecUncompressed {
				src.FailAt = 40 + rng.Intn(400)
				src.FailMode = []string{"zero", "partial"}[rng.Intn(2)]
			}
			ReadAll(cs.Shape, src, len(cs.Recs)+5)
		}()
	}
	func() {
		defer func() { recover() }()
		sink := NewSink()
		sink.FailAt = rng.Intn(12)
		sink.FailMode = []string{"transient", "sticky", "partial"}[rng.Intn(3)]
		RunHistory(cs.Shape, sink, cs.Page, cs.Codec, HistoryOf(cs.Recs, cs.Part), false)
	}()
}

func shadowReport() map[string]interface{} {
	v := expvar.Get("verif_shadow_pool")
	if v == nil {
		return nil
	}
	var m map[string]interface{}
	if json.Unmarshal([]byte(v.String()), &m) != nil {
		return nil
	}
	return m
}

func runC13(c *Ctx) {
	mode := c.Arg("mode", "indep")
	ncases := 60
	if c.Thorough {
		ncases = 400
	}
	cases := c13Cases(c, ncases)
	if mode == "cold" {
		runC13Cold(c, cases)
		return
	}
	// sequential references, computed before any concurrency starts — in an order that differs
	// from process to process, so that every process gives each history a different prior
	// process history; the digests are compared ACROSS processes by the orchestrator
	order := Rng(c.Seed, fmt.Sprintf("c13order/%s/%d", mode, c.Shard)).Perm(len(cases))
	frng := Rng(c.Seed, fmt.Sprintf("c13faults/%s/%d", mode, c.Shard))
	for _, oi := range order {
		cs := cases[oi]
		b, msg := cs.runWriter(rand.New(rand.NewSource(1)), nil)
		if msg != "" {
			// whether this is the history's own fault (a C01 matter) or the effect of what ran before
			// it in THIS process is decided across processes: the orders and the failed operations differ
			c.Out.SetAdd("history_digests", fmt.Sprintf("%s=WRITE-FAILED", cs.ID))
			c.Out.SetAdd("history_failures", fmt.Sprintf("%s: %s", cs.ID, clip(msg)))
			continue
		}
		cs.Ref = b
		dg := sha256.Sum256(b)
		c.Out.SetAdd("history_digests", fmt.Sprintf("%s=%x", cs.ID, dg[:10]))
		if m := cs.runReader(nil); m != "" {
			c.Out.SetAdd("history_digests", fmt.Sprintf("%s/read=READ-FAILED", cs.ID))
			c.Out.SetAdd("history_failures", fmt.Sprintf("%s (read): %s", cs.ID, clip(m)))
			cs.Ref = nil
			continue
		}
		c.Out.SetAdd("history_digests", fmt.Sprintf("%s/read=ok", cs.ID))
		if frng.Intn(3) == 0 {
			// failed operations of another instance between two reference runs (differs per process)
			faultyOps(cs, frng)
		}
	}
	// histories without a reference in this process take no further part here
	var usable []*c13case
	for _, cs := range cases {
		if cs.Ref != nil {
			usable = append(usable, cs)
		}
	}
	cases = usable
	if len(cases) < 2 {
		c.Out.Inconclusive("fewer than two histories have a sequential reference in this process")
		return
	}
	viol := func(kind, caseID, detail string) {
		c.Out.Violate(Violation{Prop: "C13", Key: "mode=" + mode + ";kind=" + kind, Case: caseID, Detail: detail, Extra: map[string]interface{}{"mode": mode}})
	}
	switch mode {
	case "indep":
		// family 1b: FAILED operations of one instance, then another instance using the same
		// code paths (same codec): whatever a failure leaves behind in shared state must not
		// reach the next instance
		byCodec := map[int][]*c13case{}
		for _, cs := range cases {
			byCodec[cs.Codec] = append(byCodec[cs.Codec], cs)
		}
		for codec, list := range byCodec {
			for round := 0; round < 8; round++ {
				x := list[frng.Intn(len(list))]
				y := list[frng.Intn(len(list))]
				faultyOps(x, frng)
				c.Out.Count("fault_then_verify_rounds", 1)
				if m := y.runReader(nil); m != "" {
					viol("rows_depend_on_failed_instance", "indep/"+y.ID, fmt.Sprintf("after another instance (%s, %s) had FAILED while reading a damaged file / writing to a failing sink, a new reader of the intact file of %s: %s", x.ID, CodecNames[codec], y.ID, m))
				}
				if b, msg := y.runWriter(frng, nil); msg != "" || !bytes.Equal(b, y.Ref) {
					viol("bytes_depend_on_failed_instance", "indep/"+y.ID, fmt.Sprintf("after another instance (%s, %s) had failed, history %s: %s (bytes equal: %v)", x.ID, CodecNames[codec], y.ID, msg, bytes.Equal(b, y.Ref)))
				}
			}
		}
		// family 1c: two instances alive at the same time on one goroutine, calls interleaved:
		// a history with itself (both instances share the option slice when Shared) and with the
		// next history of the same struct
		for i, cs := range cases {
			id := "interleaved/" + cs.ID
			if !c.Take(id) {
				continue
			}
			partners := []*c13case{cs}
			for d := 1; d < len(cases); d++ {
				o := cases[(i+d)%len(cases)]
				if o.Shape == cs.Shape {
					partners = append(partners, o)
					break
				}
			}
			for pi, o := range partners {
				for round := 0; round < 3; round++ {
					irng := Rng(c.Seed, fmt.Sprintf("interleave/%s/%d/%d", cs.ID, pi, round))
					ba, bb, msg := runInterleaved(cs, o, irng)
					c.Out.Count("interleaved_instance_pairs", 1)
					if cs.Shared && o.Shared && cs.Page == o.Page && cs.Codec == o.Codec {
						c.Out.Count("interleaved_pairs_sharing_an_option_slice", 1)
					}
					switch {
					case msg != "":
						viol("interleaved_instances_fail", id, fmt.Sprintf("histories %s and %s as two writers alive at the same time on one goroutine: %s", cs.ID, o.ID, msg))
					case !bytes.Equal(ba, cs.Ref):
						viol("bytes_depend_on_other_live_instance", id, fmt.Sprintf("history %s, run while another writer (%s) was alive on the same goroutine (calls interleaved, no concurrency), produced different bytes (first difference at byte %d of %d/%d)", cs.ID, o.ID, firstDiffIdx(ba, cs.Ref), len(ba), len(cs.Ref)))
					case !bytes.Equal(bb, o.Ref):
						viol("bytes_depend_on_other_live_instance", id, fmt.Sprintf("history %s, run while another writer (%s) was alive on the same goroutine (calls interleaved, no concurrency), produced different bytes (first difference at byte %d of %d/%d)", o.ID, cs.ID, firstDiffIdx(bb, o.Ref), len(bb), len(o.Ref)))
					}
				}
			}
		}
		// family 1d: two readers of the same file; the consumer of the first edits ITS records in
		// place; the records the second reader had already returned must not change, and a third
		// reader must return the written records
		for _, cs := range cases {
			id := "edited-records/" + cs.ID
			if !c.Take(id) {
				continue
			}
			sc := cs.Shape.Schema()
			ra := ReadAll(cs.Shape, NewSource(cs.Ref), len(cs.Recs)+5)
			rc := ReadAll(cs.Shape, NewSource(cs.Ref), len(cs.Recs)+5)
			if ra.Panic != nil || rc.Panic != nil || ra.Reported() || rc.Reported() {
				continue // judged by the other families
			}
			for _, h := range ra.Held {
				Scramble(h.Elem())
			}
			c.Out.Count("readers_whose_records_were_edited_in_place", 1)
			for i, h := range rc.Held {
				if i < len(cs.Recs) && !dremel.Equal(sc.FromGo(h.Elem()), cs.Recs[i]) {
					viol("records_shared_between_readers", id, fmt.Sprintf("file of %s: after the records returned by one reader were edited in place, record %d that ANOTHER reader had returned earlier changed: %s (written vs now)", cs.ID, i, sc.Diff(cs.Recs[i], sc.FromGo(h.Elem()))))
					break
				}
			}
			if m := cs.runReader(nil); m != "" {
				viol("rows_depend_on_edited_records", id, fmt.Sprintf("file of %s read by a new reader after the records of an earlier reader had been edited in place: %s", cs.ID, m))
			}
		}
		// family 1: the same history after different prior process histories
		for i, cs := range cases {
			id := "indep/" + cs.ID
			if !c.Take(id) {
				continue
			}
			c.Out.Count("cases", 1)
			for p := 0; p < 4; p++ {
				// polluters: other histories leaving the pools with buffers of other sizes/contents
				prng := Rng(c.Seed, fmt.Sprintf("pollute/%s/%d", cs.ID, p))
				for q := 0; q < 1+prng.Intn(4); q++ {
					o := cases[(i+1+prng.Intn(len(cases)-1))%len(cases)]
					o.runWriter(prng, nil)
					if prng.Intn(2) == 0 {
						o.runReader(nil)
					}
					if prng.Intn(2) == 0 {
						faultyOps(o, prng)
						c.Out.Count("polluters_with_failed_operations", 1)
					}
				}
				b, msg := cs.runWriter(prng, nil)
				c.Out.Count("repeated_histories", 1)
				c.Out.Distinct(fmt.Sprintf("%s/p%d", id, p), true)
				if msg != "" {
					viol("history_fails_after_polluter", id, fmt.Sprintf("%s after polluter %d: %s", cs.ID, p, msg))
				} else if !bytes.Equal(b, cs.Ref) {
					viol("bytes_depend_on_prior_history", id, fmt.Sprintf("history %s produced different bytes after prior activity in the process (first difference at byte %d of %d/%d)", cs.ID, firstDiffIdx(b, cs.Ref), len(b), len(cs.Ref)))
				}
				if m := cs.runReader(nil); m != "" {
					viol("rows_depend_on_prior_history", id, fmt.Sprintf("reading %s after prior activity: %s", cs.ID, m))
				}
			}
		}
		c.Out.Sample(map[string]interface{}{"mode": "indep", "histories": len(cases), "polluter_prefixes_per_history": 4})
	case "conc":
		// families 2 and 3: G goroutines, each with its own instances
		g := 8
		iters := 120
		reps := 2
		if c.Thorough {
			g = 16
			iters = 200
			reps = 3
		}
		if v := c.Arg("g", ""); v != "" {
			fmt.Sscan(v, &g)
		}
		if v := c.Arg("iters", ""); v != "" {
			fmt.Sscan(v, &iters)
		}
		if c.Only != "" && c.Only != "conc" {
			return
		}
		c.Out.Journal("conc")
		for rep := 0; rep < reps; rep++ {
			type glog struct {
				spans  [][2]int64
				events []int64
				msgs   []string
				ids    []string
				n      int
			}
			logs := make([]*glog, g)
			var wg sync.WaitGroup
			start := make(chan struct{})
			for gi := 0; gi < g; gi++ {
				logs[gi] = &glog{}
				wg.Add(1)
				go func(gi int, lg *glog) {
					defer wg.Done()
					rng := Rng(c.Seed, fmt.Sprintf("conc/%d/%d/%d", c.Shard, rep, gi))
					<-start
					for it := 0; it < iters; it++ {
						cs := cases[rng.Intn(len(cases))]
						t0 := time.Now().UnixNano()
						if rng.Intn(3) > 0 {
							b, msg := cs.runWriter(rng, &lg.events)
							if msg != "" {
								lg.msgs = append(lg.msgs, "writer "+cs.ID+": "+msg)
								lg.ids = append(lg.ids, cs.ID)
							} else if !bytes.Equal(b, cs.Ref) {
								lg.msgs = append(lg.msgs, fmt.Sprintf("writer %s produced bytes different from its sequential reference while other instances were running (first difference at byte %d of %d/%d)", cs.ID, firstDiffIdx(b, cs.Ref), len(b), len(cs.Ref)))
								lg.ids = append(lg.ids, cs.ID)
							}
						} else if m := cs.runReader(rng); m != "" {
							lg.msgs = append(lg.msgs, "reader "+cs.ID+" returned rows different from its sequential reference while other instances were running: "+m)
							lg.ids = append(lg.ids, cs.ID)
						}
						lg.spans = append(lg.spans, [2]int64{t0, time.Now().UnixNano()})
						lg.n++
					}
				}(gi, logs[gi])
			}
			close(start)
			wg.Wait()
			// offline: overlap and interleaving from the per-goroutine logs
			type ev struct {
				t int64
				d int
			}
			var evs []ev
			type we struct {
				t int64
				g int
			}
			var wes []we
			for gi, lg := range logs {
				c.Out.Count("instances_run", int64(lg.n))
				c.Out.Count("cases", int64(lg.n))
				for _, s := range lg.spans {
					evs = append(evs, ev{s[0], 1}, ev{s[1], -1})
				}
				for _, t := range lg.events {
					wes = append(wes, we{t, gi})
				}
				for i, m := range lg.msgs {
					viol("interference", "conc", fmt.Sprintf("goroutine %d: %s", gi, m))
					_ = i
				}
			}
			sort.Slice(evs, func(i, j int) bool { return evs[i].t < evs[j].t || (evs[i].t == evs[j].t && evs[i].d < evs[j].d) })
			cur, maxc := 0, 0
			for _, e := range evs {
				cur += e.d
				if cur > maxc {
					maxc = cur
				}
			}
			c.Out.Max("max_instances_in_flight", int64(maxc))
			sort.Slice(wes, func(i, j int) bool { return wes[i].t < wes[j].t })
			sw := 0
			sig := uint64(1469598103934665603)
			for i := range wes {
				if i > 0 && wes[i].g != wes[i-1].g {
					sw++
					sig = (sig ^ uint64(wes[i].g+1)) * 1099511628211
				}
			}
			c.Out.Count("sink_write_events", int64(len(wes)))
			c.Out.Count("goroutine_switches_between_sink_writes", int64(sw))
			c.Out.Distinct(fmt.Sprintf("interleaving/%x", sig), sw > 0)
			c.Out.SetAdd("interleaving_signatures", fmt.Sprintf("%016x", sig))
		}
		if r := shadowReport(); r != nil {
			c.Out.Count("shadow_gets", int64(r["Gets"].(float64)))
			c.Out.Count("shadow_puts", int64(r["Puts"].(float64)))
			c.Out.Count("shadow_reuses", int64(r["Reuses"].(float64)))
			c.Out.Count("shadow_cross_goroutine_handovers", int64(r["Handovers"].(float64)))
			if vs, ok := r["Violations"].([]interface{}); ok {
				for _, v := range vs {
					viol("shadow_pool", "conc", fmt.Sprint(v))
				}
			}
		}
		c.Out.Sample(map[string]interface{}{"mode": "conc", "goroutines": g, "iterations_per_goroutine": iters, "repetitions": reps, "histories": len(cases), "shadow_pool_linked": shadowReport() != nil})
	}
	if mode == "indep" {
		if r := shadowReport(); r != nil {
			c.Out.Count("shadow_gets", int64(r["Gets"].(float64)))
			c.Out.Count("shadow_puts", int64(r["Puts"].(float64)))
			c.Out.Count("shadow_reuses", int64(r["Reuses"].(float64)))
			if vs, ok := r["Violations"].([]interface{}); ok {
				for _, v := range vs {
					viol("shadow_pool", "indep", fmt.Sprint(v))
				}
			}
		}
	}
}

func firstDiffIdx(a, b []byte) int {
	i := 0
	for i < len(a) && i < len(b) && a[i] == b[i] {
		i++
	}
	return i
}

// runC13Cold: the process's FIRST use of the library happens on G goroutines at
// once (no sequential warm-up: whatever the library initialises lazily is
// initialised under concurrency). Every goroutine runs whole write-then-read
// histories on its own instances; afterwards each history is repeated
// sequentially and must have produced the same bytes. Run under the race
// detector.
func runC13Cold(c *Ctx, cases []*c13case) {
	c.Out.Journal("cold")
	g := 8
	type outcome struct {
		cs   *c13case
		b    []byte
		msg  string
		read string
	}
	results := make([][]outcome, g)
	// rounds: one per struct shape, so that the first use of every shape's code paths (level
	// widths, column types) happens on all goroutines at once; a barrier separates the rounds
	byShape := map[string][]*c13case{}
	var shapeOrder []string
	for _, cs := range cases {
		if _, ok := byShape[cs.Shape.Name]; !ok {
			shapeOrder = append(shapeOrder, cs.Shape.Name)
		}
		byShape[cs.Shape.Name] = append(byShape[cs.Shape.Name], cs)
	}
	// the order of the rounds differs per process
	Rng(c.Seed, fmt.Sprintf("coldorder/%d", c.Shard)).Shuffle(len(shapeOrder), func(i, j int) { shapeOrder[i], shapeOrder[j] = shapeOrder[j], shapeOrder[i] })
	for _, sn := range shapeOrder {
		list := byShape[sn]
		var wg sync.WaitGroup
		start := make(chan struct{})
		for gi := 0; gi < g; gi++ {
			wg.Add(1)
			go func(gi int) {
				defer wg.Done()
				rng := Rng(c.Seed, fmt.Sprintf("cold/%d/%d/%s", c.Shard, gi, sn))
				cs := list[(gi+c.Shard)%len(list)]
				<-start
				b, msg := cs.runWriter(rng, nil)
				o := outcome{cs: cs, b: b, msg: msg}
				if msg == "" {
					tmp := *cs
					tmp.Ref = b
					o.read = tmp.runReader(rng)
				}
				results[gi] = append(results[gi], o)
			}(gi)
		}
		close(start)
		wg.Wait()
	}
	for gi, rs := range results {
		for _, o := range rs {
			c.Out.Count("cases", 1)
			c.Out.Count("cold_start_histories", 1)
			id := fmt.Sprintf("cold/%s/g%d", o.cs.ID, gi)
			c.Out.Distinct(id, true)
			ref, rmsg := o.cs.runWriter(rand.New(rand.NewSource(1)), nil)
			switch {
			case o.msg != "" && rmsg == "":
				c.Out.Violate(Violation{Prop: "C13", Key: "mode=cold;kind=fails_only_at_cold_start", Case: "cold", Detail: fmt.Sprintf("history %s failed when it was among the first uses of the library on %d goroutines at once (%s) and succeeds when repeated alone", o.cs.ID, g, o.msg), Extra: map[string]interface{}{"mode": "cold"}})
			case o.msg == "" && rmsg == "" && !bytes.Equal(o.b, ref):
				c.Out.Violate(Violation{Prop: "C13", Key: "mode=cold;kind=bytes_differ_at_cold_start", Case: "cold", Detail: fmt.Sprintf("history %s produced different bytes when it was among the first uses of the library on %d goroutines at once (first difference at byte %d of %d/%d)", o.cs.ID, g, firstDiffIdx(o.b, ref), len(o.b), len(ref)), Extra: map[string]interface{}{"mode": "cold"}})
			case o.msg == "" && o.read != "":
				c.Out.Violate(Violation{Prop: "C13", Key: "mode=cold;kind=rows_differ_at_cold_start", Case: "cold", Detail: fmt.Sprintf("history %s, read back while the library was first used on %d goroutines at once: %s", o.cs.ID, g, o.read), Extra: map[string]interface{}{"mode": "cold"}})
			}
		}
	}
	c.Out.Sample(map[string]interface{}{"mode": "cold", "goroutines": g, "rounds (one per struct shape, all goroutines start it together)": shapeOrder})
}
