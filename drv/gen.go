package drv

import (
	"fmt"
	"hash/fnv"
	"math"
	"math/rand"
	"reflect"
	"strings"

	"github.com/parsyl/parquet/verifkit/ref/dremel"
	"github.com/parsyl/parquet/verifkit/ref/pqfile"
)

// SubSeed derives an independent seed from the run seed and a label, so that
// adding or skipping cases never shifts the random choices of the others.
func SubSeed(seed int64, label string) int64 {
	h := fnv.New64a()
	fmt.Fprintf(h, "%d|%s", seed, label)
	return int64(h.Sum64() & 0x7fffffffffffffff)
}

// Rng returns a PRNG for (seed, label).
func Rng(seed int64, label string) *rand.Rand {
	return rand.New(rand.NewSource(SubSeed(seed, label)))
}

// Hash64 hashes a string.
func Hash64(s string) uint64 {
	h := fnv.New64a()
	h.Write([]byte(s))
	return h.Sum64()
}

// chooser supplies structural choices.
type chooser interface {
	Choose(n int) int
}

type rngChooser struct{ r *rand.Rand }

func (c rngChooser) Choose(n int) int { return c.r.Intn(n) }

// enumChooser replays a prefix of choices and then answers 0, recording the
// radix of every choice point, which lets EnumStructures walk the whole
// choice tree depth-first.
type enumChooser struct {
	prefix []int
	radix  []int
	pos    int
}

func (c *enumChooser) Choose(n int) int {
	v := 0
	if c.pos < len(c.prefix) {
		v = c.prefix[c.pos]
	} else {
		c.prefix = append(c.prefix, 0)
	}
	if c.pos < len(c.radix) {
		c.radix[c.pos] = n
	} else {
		c.radix = append(c.radix, n)
	}
	c.pos++
	return v
}

// valueSource supplies leaf values.
type valueSource interface {
	Leaf(n *dremel.GNode) pqfile.Val
}

// counterVals makes every written value unique (bools alternate).
type counterVals struct{ n *uint64 }

func (c counterVals) Leaf(n *dremel.GNode) pqfile.Val {
	*c.n++
	k := *c.n
	switch n.Elem.Kind() {
	case reflect.Int32, reflect.Uint32:
		return pqfile.Val{U: k & 0x7fffffff}
	case reflect.Int64, reflect.Uint64:
		return pqfile.Val{U: k}
	case reflect.Float32:
		return pqfile.Val{U: uint64(math.Float32bits(float32(k) + 0.5))}
	case reflect.Float64:
		return pqfile.Val{U: math.Float64bits(float64(k) + 0.25)}
	case reflect.Bool:
		return pqfile.Val{U: k & 1}
	case reflect.String:
		return pqfile.Val{S: fmt.Sprintf("s%d", k)}
	}
	panic("counterVals")
}

var (
	extI32 = []uint64{0, 1, 0xffffffff, 0x7fffffff, 0x80000000, 0x80000001, 2, 255, 256, 65535, 65536}
	extI64 = []uint64{0, 1, math.MaxUint64, math.MaxInt64, 1 << 63, 1<<63 + 1, 0xffffffff, 1 << 32, 2}
	extF32 = []uint64{0, 0x80000000, 0x7f800000, 0xff800000, 0x7fc00000, 0xffc00001, 0x7fa00001, 0xffa00123, 0x7fffffff,
		1, 0x80000001, 0x007fffff, 0x00800000, 0x7f7fffff, 0xff7fffff, 0x3f800000, 0xbf800000}
	extF64 = []uint64{0, 1 << 63, 0x7ff0000000000000, 0xfff0000000000000, 0x7ff8000000000000, 0xfff8000000000001,
		0x7ff4000000000001, 0xfff4000000000123, 0x7fffffffffffffff, 1, 1<<63 + 1, 0x000fffffffffffff, 0x0010000000000000,
		0x7fefffffffffffff, 0xffefffffffffffff, 0x3ff0000000000000, 0xbff0000000000000}
	extStr = []string{"", "a", "\x00", "\xff", "\xff\xfe\xfd", "__#NIL#__", "__#NIL#__x", "__#NIL#_", "zzz", "~", "\xf0\x9f\x98\x80",
		"prefix-aaaaaaaaaaaaaaaaaaaaaaaaaaaaaaaa-1", "prefix-aaaaaaaaaaaaaaaaaaaaaaaaaaaaaaaa-2", "prefix-aaaaaaaaaaaaaaaaaaaaaaaaaaaaaaaa",
		"PAR1", "a\x00b", " ", "\n"}
)

// LongString returns a deterministic string of n bytes containing arbitrary
// byte values.
func LongString(n int, salt int) string {
	b := make([]byte, n)
	x := uint32(salt*2654435761 + 12345)
	for i := range b {
		x = x*1664525 + 1013904223
		b[i] = byte(x >> 24)
	}
	return string(b)
}

// extremeVals draws from the per-type extreme lists, sometimes a random value.
type extremeVals struct {
	r       *rand.Rand
	longStr bool // allow one 70 KiB string
	usedBig *bool
}

func (e extremeVals) Leaf(n *dremel.GNode) pqfile.Val {
	r := e.r
	pick := func(l []uint64) uint64 { return l[r.Intn(len(l))] }
	switch n.Elem.Kind() {
	case reflect.Int32, reflect.Uint32:
		if r.Intn(4) == 0 {
			return pqfile.Val{U: uint64(r.Uint32())}
		}
		return pqfile.Val{U: pick(extI32)}
	case reflect.Int64, reflect.Uint64:
		if r.Intn(4) == 0 {
			return pqfile.Val{U: r.Uint64()}
		}
		return pqfile.Val{U: pick(extI64)}
	case reflect.Float32:
		if r.Intn(4) == 0 {
			return pqfile.Val{U: uint64(r.Uint32())}
		}
		return pqfile.Val{U: pick(extF32)}
	case reflect.Float64:
		if r.Intn(4) == 0 {
			return pqfile.Val{U: r.Uint64()}
		}
		return pqfile.Val{U: pick(extF64)}
	case reflect.Bool:
		return pqfile.Val{U: uint64(r.Intn(2))}
	case reflect.String:
		if e.longStr && e.usedBig != nil && !*e.usedBig && r.Intn(6) == 0 {
			*e.usedBig = true
			return pqfile.Val{S: LongString(70*1024+r.Intn(50), r.Int())}
		}
		if r.Intn(5) == 0 {
			return pqfile.Val{S: LongString(r.Intn(300), r.Int())}
		}
		if r.Intn(12) == 0 {
			// lengths at the usual buffer / length-field boundaries
			ls := []int{63, 64, 65, 127, 128, 129, 255, 256, 257, 1023, 1024, 4095, 4096, 4097}
			if e.longStr {
				ls = append(ls, 32767, 32768, 32769, 65535, 65536, 65537)
			}
			return pqfile.Val{S: LongString(ls[r.Intn(len(ls))], r.Int())}
		}
		return pqfile.Val{S: extStr[r.Intn(len(extStr))]}
	}
	panic("extremeVals")
}

// randomVals: small domains (so that equal neighbours and RLE-friendly
// patterns occur) mixed with full-range values.
type randomVals struct{ r *rand.Rand }

func (e randomVals) Leaf(n *dremel.GNode) pqfile.Val {
	r := e.r
	small := r.Intn(3) > 0
	switch n.Elem.Kind() {
	case reflect.Int32:
		if small {
			return pqfile.Val{U: uint64(uint32(int32(r.Intn(21) - 10)))}
		}
		return pqfile.Val{U: uint64(r.Uint32())}
	case reflect.Uint32:
		if small {
			return pqfile.Val{U: uint64(r.Intn(20))}
		}
		return pqfile.Val{U: uint64(r.Uint32())}
	case reflect.Int64:
		if small {
			return pqfile.Val{U: uint64(int64(r.Intn(21) - 10))}
		}
		return pqfile.Val{U: r.Uint64()}
	case reflect.Uint64:
		if small {
			return pqfile.Val{U: uint64(r.Intn(20))}
		}
		return pqfile.Val{U: r.Uint64()}
	case reflect.Float32:
		return pqfile.Val{U: uint64(math.Float32bits(float32(r.NormFloat64() * 100)))}
	case reflect.Float64:
		return pqfile.Val{U: math.Float64bits(r.NormFloat64() * 1e6)}
	case reflect.Bool:
		return pqfile.Val{U: uint64(r.Intn(2))}
	case reflect.String:
		if small {
			return pqfile.Val{S: fmt.Sprintf("v%d", r.Intn(30))}
		}
		return pqfile.Val{S: LongString(r.Intn(60), r.Int())}
	}
	panic("randomVals")
}

// genTree builds one record. lens are the list lengths a repeated node may
// take (the chooser picks an index).
func genTree(s *dremel.Schema, ch chooser, vs valueSource, lens []int) *dremel.Tree {
	var group func(g *dremel.GNode) *dremel.Tree
	var content func(n *dremel.GNode) *dremel.Tree
	content = func(n *dremel.GNode) *dremel.Tree {
		if n.Leaf {
			return &dremel.Tree{IsLeaf: true, V: vs.Leaf(n)}
		}
		return group(n)
	}
	group = func(g *dremel.GNode) *dremel.Tree {
		t := &dremel.Tree{}
		for _, k := range g.Kids {
			switch k.Rep {
			case pqfile.Optional:
				if ch.Choose(2) == 0 {
					t.Kids = append(t.Kids, &dremel.Tree{Null: true})
				} else {
					t.Kids = append(t.Kids, content(k))
				}
			case pqfile.Repeated:
				l := lens[ch.Choose(len(lens))]
				lt := &dremel.Tree{IsList: true}
				for i := 0; i < l; i++ {
					lt.List = append(lt.List, content(k))
				}
				t.Kids = append(t.Kids, lt)
			default:
				t.Kids = append(t.Kids, content(k))
			}
		}
		return t
	}
	return group(s.Root)
}

// EnumStructures enumerates records with every combination of nil/non-nil
// optionals and list lengths in lens, depth-first, up to max records; leaves
// are filled from a shared counter so every value is unique. It reports
// whether the enumeration was complete.
func EnumStructures(s *dremel.Schema, lens []int, max int, counter *uint64) ([]*dremel.Tree, bool) {
	var out []*dremel.Tree
	ec := &enumChooser{}
	for {
		ec.pos = 0
		t := genTree(s, ec, counterVals{counter}, lens)
		out = append(out, t)
		// truncate to the choices actually used, then increment
		ec.prefix = ec.prefix[:ec.pos]
		ec.radix = ec.radix[:ec.pos]
		i := len(ec.prefix) - 1
		for i >= 0 && ec.prefix[i]+1 >= ec.radix[i] {
			i--
		}
		if i < 0 {
			return out, true
		}
		ec.prefix[i]++
		ec.prefix = ec.prefix[:i+1]
		ec.radix = ec.radix[:i+1]
		if len(out) >= max {
			return out, false
		}
	}
}

// StructSig is a compact signature of a record's structure (nil/len pattern),
// used to count distinct structures.
func StructSig(t *dremel.Tree) string {
	var sb strings.Builder
	var rec func(t *dremel.Tree)
	rec = func(t *dremel.Tree) {
		switch {
		case t.Null:
			sb.WriteByte('n')
		case t.IsList:
			fmt.Fprintf(&sb, "[%d", len(t.List))
			for _, e := range t.List {
				rec(e)
			}
			sb.WriteByte(']')
		case t.IsLeaf:
			sb.WriteByte('v')
		default:
			sb.WriteByte('{')
			for _, k := range t.Kids {
				rec(k)
			}
			sb.WriteByte('}')
		}
	}
	rec(t)
	return sb.String()
}

// NonTrivialStruct: the record has a nil optional, an empty list or a list of
// length >= 2 somewhere.
func NonTrivialStruct(t *dremel.Tree) bool {
	if t.Null {
		return true
	}
	if t.IsList {
		if len(t.List) != 1 {
			return true
		}
		return NonTrivialStruct(t.List[0])
	}
	for _, k := range t.Kids {
		if NonTrivialStruct(k) {
			return true
		}
	}
	return false
}

var (
	lensSmall    = []int{0, 1, 2}
	lensThorough = []int{0, 1, 2, 3}
	lensBoundary = []int{0, 1, 2, 7, 8, 9, 63, 64, 65, 503, 504, 505, 511, 512, 513, 1008, 1009}
	lensRandom   = []int{0, 0, 1, 1, 1, 2, 2, 3, 4, 5, 8, 13}
)

// HasRepeated reports whether the schema has a repeated node.
func HasRepeated(s *dremel.Schema) bool {
	for _, l := range s.Leaves {
		if l.MaxRep > 0 {
			return true
		}
	}
	return false
}

// GenKind names a record generator.
type GenKind string

const (
	GenStruct   GenKind = "struct"        // structural enumeration, unique values
	GenExtreme  GenKind = "extreme"       // per-type extreme values
	GenExtremeS GenKind = "extreme-small" // the same without the 70 KiB string
	GenRandom   GenKind = "random"        // random structure and values
	GenRuns     GenKind = "runs"          // long stretches of identical structure (RLE-friendly levels)
	GenBoundary GenKind = "boundary"      // list lengths at level-run boundaries
	GenHuge     GenKind = "huge"          // a 16k+ element list / 70 KiB string
	GenUniform  GenKind = "uniform"       // every record has the same structure (long RLE runs in the levels)
)

// GenRecords produces n records (GenStruct ignores n and returns the whole
// enumeration up to cap n).
func GenRecords(s *dremel.Schema, kind GenKind, n int, rng *rand.Rand, thorough bool) []*dremel.Tree {
	var out []*dremel.Tree
	switch kind {
	case GenStruct:
		var c uint64
		lens := lensSmall
		if thorough {
			lens = lensThorough
		}
		out, _ = EnumStructures(s, lens, n, &c)
	case GenExtreme:
		big := false
		for i := 0; i < n; i++ {
			out = append(out, genTree(s, rngChooser{rng}, extremeVals{r: rng, longStr: true, usedBig: &big}, lensRandom))
		}
	case GenExtremeS:
		for i := 0; i < n; i++ {
			out = append(out, genTree(s, rngChooser{rng}, extremeVals{r: rng}, lensRandom))
		}
	case GenRandom:
		for i := 0; i < n; i++ {
			out = append(out, genTree(s, rngChooser{rng}, randomVals{rng}, lensRandom))
		}
	case GenRuns:
		// stretches of records sharing one structure: a fixed choice
		// sequence replayed for a stretch
		for len(out) < n {
			stretch := 1 + rng.Intn(40)
			seq := rand.New(rand.NewSource(rng.Int63()))
			choices := make([]int, 0, 64)
			rec := &recordingChooser{r: seq}
			out = append(out, genTree(s, rec, randomVals{rng}, lensSmall))
			choices = rec.log
			for j := 1; j < stretch && len(out) < n; j++ {
				out = append(out, genTree(s, &replayChooser{log: choices}, randomVals{rng}, lensSmall))
			}
		}
	case GenUniform:
		rec := &recordingChooser{r: rand.New(rand.NewSource(rng.Int63()))}
		out = append(out, genTree(s, rec, randomVals{rng}, lensSmall))
		for len(out) < n {
			out = append(out, genTree(s, &replayChooser{log: rec.log}, randomVals{rng}, lensSmall))
		}
	case GenBoundary:
		for i := 0; i < n; i++ {
			// one boundary-length list per record, the rest small
			bc := &boundaryChooser{r: rng, lens: lensBoundary, hot: rng.Intn(4)}
			out = append(out, genTree(s, bc, randomVals{rng}, lensBoundary))
		}
	case GenHuge:
		for i := 0; i < n; i++ {
			hc := &hugeChooser{r: rng}
			big := false
			long := 16384 + rng.Intn(3)
			if rng.Intn(2) == 0 {
				long = 65535 + rng.Intn(3) // beyond 16-bit counters
			}
			out = append(out, genTree(s, hc, extremeVals{r: rng, longStr: true, usedBig: &big}, []int{0, 1, long}))
		}
	}
	return out
}

type recordingChooser struct {
	r   *rand.Rand
	log []int
}

func (c *recordingChooser) Choose(n int) int {
	v := c.r.Intn(n)
	c.log = append(c.log, v)
	return v
}

type replayChooser struct {
	log []int
	pos int
}

func (c *replayChooser) Choose(n int) int {
	if c.pos < len(c.log) {
		v := c.log[c.pos] % n
		c.pos++
		return v
	}
	return 0
}

// boundaryChooser picks a large boundary length for the hot-th list choice of
// the record and small ones elsewhere (keeps records bounded for nested
// lists).
type boundaryChooser struct {
	r    *rand.Rand
	lens []int
	hot  int
	seen int
}

func (c *boundaryChooser) Choose(n int) int {
	if n == 2 {
		return c.r.Intn(2)
	}
	c.seen++
	if c.seen-1 == c.hot {
		return c.r.Intn(n)
	}
	return c.r.Intn(3)
}

type hugeChooser struct {
	r    *rand.Rand
	used bool
}

func (c *hugeChooser) Choose(n int) int {
	if n == 2 {
		return 1
	}
	if !c.used {
		c.used = true
		return 2
	}
	return c.r.Intn(2)
}

// Compositions enumerates all ordered partitions of n into positive parts
// (2^(n-1) of them) when n <= limit, else returns nil.
func Compositions(n, limit int) [][]int {
	if n <= 0 || n > limit {
		return nil
	}
	var out [][]int
	for mask := 0; mask < 1<<(n-1); mask++ {
		var parts []int
		cur := 1
		for i := 0; i < n-1; i++ {
			if mask>>uint(i)&1 == 1 {
				parts = append(parts, cur)
				cur = 1
			} else {
				cur++
			}
		}
		parts = append(parts, cur)
		out = append(out, parts)
	}
	return out
}

// RandomPartition splits n records into non-empty batches.
func RandomPartition(n int, rng *rand.Rand) []int {
	if n == 0 {
		return nil
	}
	switch rng.Intn(4) {
	case 0:
		return []int{n}
	case 1:
		var out []int
		for n > 0 {
			k := 1 + rng.Intn(n)
			out = append(out, k)
			n -= k
		}
		return out
	default:
		var out []int
		for n > 0 {
			k := 1 + rng.Intn(1+n/3)
			if k > n {
				k = n
			}
			out = append(out, k)
			n -= k
		}
		return out
	}
}

// PageSizes returns the page sizes to try for batches of size n.
func PageSizes(n int, rng *rand.Rand, count int) []int {
	base := []int{1, 2, 3, 7, 8, 9, 63, 64, 65, 504, 1000}
	if n > 1 {
		base = append(base, n-1, n, n+1, (n+1)/2)
	}
	var out []int
	seen := map[int]bool{}
	for len(out) < count {
		p := base[rng.Intn(len(base))]
		if rng.Intn(5) == 0 {
			p = 1 + rng.Intn(40)
		}
		if p < 1 || seen[p] {
			if len(seen) >= len(base) {
				break
			}
			continue
		}
		seen[p] = true
		out = append(out, p)
	}
	return out
}
