// Package drv is the driver runtime linked into every binary that exercises
// generated parquet readers/writers. Generated packages register themselves
// through a small glue file; the monitors in this package drive them through
// the public generated API only and judge what they observe at the boundary
// (sink bytes, source calls, returned rows and errors).
package drv

import (
	"io"
	"reflect"
	"sort"

	"github.com/parsyl/parquet/verifkit/ref/dremel"
)

// W is the generated ParquetWriter seen through the glue.
type W interface {
	Add(rec interface{})
	Write() error
	Close() error
}

// R is the generated ParquetReader seen through the glue.
type R interface {
	Rows() int64
	Next() bool
	Scan(dst interface{}) // dst is *T
	Error() error
}

// Codecs as passed to NewWriter.
const (
	CodecDefault      = -1
	CodecUncompressed = 0
	CodecSnappy       = 1
	CodecGzip         = 2
)

var CodecNames = map[int]string{-1: "default", 0: "uncompressed", 1: "snappy", 2: "gzip"}

// Shape is one generated package.
type Shape struct {
	Name string
	Type reflect.Type
	// Sig is the canonical signature of the struct shape (C05/C14/C15).
	Sig string
	// NewWriter: page <= 0 means "do not pass MaxPageSize"; codec
	// CodecDefault means "pass no codec option".
	NewWriter func(w io.Writer, page int, codec int) (W, error)
	// NewWriterShared: as NewWriter, but every call with the same (page, codec)
	// passes the SAME option slice (built once per process, with spare capacity)
	// to the constructor: option lists are caller-owned memory that separate
	// instances legitimately share.
	NewWriterShared func(w io.Writer, page int, codec int) (W, error)
	NewReader       func(r io.ReadSeeker) (R, error)
	// Meta is free-form glue-provided data (e.g. base shape for C14).
	Meta map[string]string

	schema *dremel.Schema
}

var registry = map[string]*Shape{}

// Register is called from the glue's init.
func Register(s Shape) {
	sp := s
	registry[s.Name] = &sp
}

// Shapes returns the registered shapes sorted by name.
func Shapes() []*Shape {
	var out []*Shape
	for _, s := range registry {
		out = append(out, s)
	}
	sort.Slice(out, func(i, j int) bool { return out[i].Name < out[j].Name })
	return out
}

// Lookup returns a shape by name.
func Lookup(name string) *Shape { return registry[name] }

// Schema returns (and caches) the reference schema of the shape's type.
func (s *Shape) Schema() *dremel.Schema {
	if s.schema == nil {
		sc, err := dremel.SchemaOf(s.Type)
		if err != nil {
			panic("reference schema of " + s.Name + ": " + err.Error())
		}
		s.schema = sc
	}
	return s.schema
}
