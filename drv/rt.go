package drv

import (
	"fmt"
	"math/rand"

	"github.com/parsyl/parquet/verifkit/ref/dremel"
)

// RTCase is one write configuration: records, their split into Write
// batches, page size and codec.
type RTCase struct {
	ID        string
	Shape     *Shape
	Gen       GenKind
	Recs      []*dremel.Tree
	Partition []int
	Page      int
	Codec     int
}

func sum(xs []int) int {
	t := 0
	for _, x := range xs {
		t += x
	}
	return t
}

// Sig is the distinctness signature of a case: shape, multiset of record
// structures (in order), partition, page size, codec.
func (c *RTCase) Sig() string {
	s := fmt.Sprintf("%s|%v|%d|%d|", c.Shape.Name, c.Partition, c.Page, c.Codec)
	for _, r := range c.Recs {
		s += StructSig(r) + ";"
	}
	return s
}

// RTScale sets how many cases of each generator a workload produces.
type RTScale struct {
	StructCap                                  int
	Singles                                    int
	Extreme, Random, Runs, Boundary, Huge      int
	Compositions                               int // N for all-compositions (0 = none)
	Defaults                                   int // records of the no-options case (0 = none)
	Big                                        int // records of the big-single-page case (0 = none)
	Codecs                                     []int
	StructPages                                []int
	MaxRandomRecs, MaxRunsRecs, MaxExtremeRecs int
}

// DefaultScale returns the scale of the shared round-trip workload.
func DefaultScale(thorough bool) RTScale {
	if thorough {
		return RTScale{StructCap: 150, Singles: 40, Extreme: 100, Random: 250, Runs: 100, Boundary: 60, Huge: 2, Compositions: 7, Defaults: 3100, Big: 9000,
			Codecs: []int{0, 1, 2}, StructPages: []int{1, 2, 3, 7, 1000}, MaxRandomRecs: 200, MaxRunsRecs: 600, MaxExtremeRecs: 60}
	}
	return RTScale{StructCap: 60, Singles: 12, Extreme: 6, Random: 10, Runs: 6, Boundary: 4, Huge: 1, Compositions: 5, Defaults: 2100, Big: 5000,
		Codecs: []int{0, 1, 2}, StructPages: []int{1, 2, 3, 1000}, MaxRandomRecs: 120, MaxRunsRecs: 300, MaxExtremeRecs: 40}
}

// RTWorkload enumerates the cases for one shape. The list is a fixed function
// of (scale, seed, shape): every case draws from its own PRNG derived from its
// id.
func RTWorkload(c *Ctx, sh *Shape, sc RTScale, f func(cs *RTCase)) {
	s := sh.Schema()
	rep := HasRepeated(s)
	emit := func(cs *RTCase) {
		cs.Shape = sh
		if sum(cs.Partition) != len(cs.Recs) {
			panic("bad partition in " + cs.ID)
		}
		if c.Take(cs.ID) {
			f(cs)
		}
	}
	structRecs := GenRecords(s, GenStruct, sc.StructCap, nil, c.Thorough)
	if sh.Meta["universe"] != "" {
		// enumerated struct shape: the structural enumeration only
		for _, cfg := range []struct{ page, codec int }{{1, 0}, {2, 1}, {1000, 0}, {3, 2}} {
			emit(&RTCase{ID: fmt.Sprintf("%s/struct/all/page=%d", sh.Name, cfg.page), Gen: GenStruct, Recs: structRecs, Partition: []int{len(structRecs)}, Page: cfg.page, Codec: cfg.codec})
		}
		if len(structRecs) >= 3 {
			a := len(structRecs) / 3
			emit(&RTCase{ID: fmt.Sprintf("%s/struct/3batches", sh.Name), Gen: GenStruct, Recs: structRecs, Partition: []int{a, a, len(structRecs) - 2*a}, Page: 2, Codec: 1})
		}
		for i := range structRecs {
			if i%3 == 0 {
				emit(&RTCase{ID: fmt.Sprintf("%s/struct/single%d", sh.Name, i), Gen: GenStruct, Recs: structRecs[i : i+1], Partition: []int{1}, Page: 1000, Codec: 0})
			}
		}
		return
	}
	if sc.Defaults > 0 {
		// no options at all: default page size (1000) and default codec, crossing the page limit twice
		id := fmt.Sprintf("%s/defaults", sh.Name)
		if c.Take(id) {
			rng := Rng(c.Seed, id)
			recs := GenRecords(s, GenRuns, sc.Defaults, rng, false)
			f(&RTCase{ID: id, Shape: sh, Gen: GenRuns, Recs: recs, Partition: []int{len(recs) - 1001, 1001}, Page: 0, Codec: CodecDefault})
		}
		// many row groups
		id = fmt.Sprintf("%s/manyrowgroups", sh.Name)
		if c.Take(id) {
			rng := Rng(c.Seed, id)
			recs := GenRecords(s, GenRandom, 300, rng, false)
			part := make([]int, len(recs))
			for i := range part {
				part[i] = 1
			}
			f(&RTCase{ID: id, Shape: sh, Gen: GenRandom, Recs: recs, Partition: part, Page: 1000, Codec: CodecSnappy})
		}
	}
	for _, codec := range sc.Codecs {
		cn := CodecNames[codec]
		pre := fmt.Sprintf("%s/%s", sh.Name, cn)
		// structural enumeration, all records in one file
		for _, p := range sc.StructPages {
			emit(&RTCase{ID: fmt.Sprintf("%s/struct/all/page=%d", pre, p), Gen: GenStruct, Recs: structRecs, Partition: []int{len(structRecs)}, Page: p, Codec: codec})
		}
		for k := 0; k < 2; k++ {
			id := fmt.Sprintf("%s/struct/part%d", pre, k)
			rng := Rng(c.Seed, id)
			part := RandomPartition(len(structRecs), rng)
			emit(&RTCase{ID: id, Gen: GenStruct, Recs: structRecs, Partition: part, Page: PageSizes(len(structRecs), rng, 1)[0], Codec: codec})
		}
		// each record alone
		for i := 0; i < sc.Singles && i < len(structRecs); i++ {
			j := i * len(structRecs) / min(sc.Singles, len(structRecs))
			emit(&RTCase{ID: fmt.Sprintf("%s/struct/single%d", pre, j), Gen: GenStruct, Recs: structRecs[j : j+1], Partition: []int{1}, Page: 1000, Codec: codec})
		}
		// all compositions of a few records
		if sc.Compositions > 0 && (codec == 0 || c.Thorough) {
			n := min(sc.Compositions, len(structRecs))
			rs := pickSpread(structRecs, n)
			for ci, part := range Compositions(n, 10) {
				emit(&RTCase{ID: fmt.Sprintf("%s/struct/comp%d", pre, ci), Gen: GenStruct, Recs: rs, Partition: part, Page: 2, Codec: codec})
			}
		}
		// big single page (tens of KiB per column: compression windows, large buffers)
		if sc.Big > 0 {
			id := fmt.Sprintf("%s/bigpage", pre)
			if c.Take(id) {
				rng := Rng(c.Seed, id)
				recs := GenRecords(s, GenRuns, sc.Big, rng, false)
				f(&RTCase{ID: id, Shape: sh, Gen: GenRuns, Recs: recs, Partition: []int{len(recs)}, Page: 100000, Codec: codec})
			}
		}
		// one page body of more than 1 MiB (large values)
		if sc.Big > 0 && sh.Name == "p8" {
			id := fmt.Sprintf("%s/xlpage", pre)
			if c.Take(id) {
				rng := Rng(c.Seed, id)
				var recs []*dremel.Tree
				for i := 0; i < 26; i++ {
					recs = append(recs, genTree(s, rngChooser{rng}, bigStrings{rng}, lensSmall))
				}
				f(&RTCase{ID: id, Shape: sh, Gen: GenHuge, Recs: recs, Partition: []int{20, 6}, Page: 1000, Codec: codec})
			}
		}
		// pages whose fixed-width bodies are exactly 2^k bytes (buffer / window boundaries)
		if sc.Big > 0 && (sh.Name == "p1" || sh.Name == "p4") {
			for _, page := range []int{1024, 4096, 8192} {
				id := fmt.Sprintf("%s/aligned/page=%d", pre, page)
				if c.Take(id) {
					rng := Rng(c.Seed, id)
					recs := GenRecords(s, GenUniform, 2*page+3, rng, false)
					f(&RTCase{ID: id, Shape: sh, Gen: GenUniform, Recs: recs, Partition: []int{len(recs)}, Page: page, Codec: codec})
				}
			}
		}
		gens := []struct {
			kind GenKind
			n    int
			max  int
		}{{GenExtreme, sc.Extreme, sc.MaxExtremeRecs}, {GenRandom, sc.Random, sc.MaxRandomRecs}, {GenRuns, sc.Runs, sc.MaxRunsRecs}}
		if rep {
			gens = append(gens, struct {
				kind GenKind
				n    int
				max  int
			}{GenBoundary, sc.Boundary, 4})
		}
		gens = append(gens, struct {
			kind GenKind
			n    int
			max  int
		}{GenHuge, sc.Huge, 2})
		for _, g := range gens {
			for k := 0; k < g.n; k++ {
				id := fmt.Sprintf("%s/%s/%d", pre, g.kind, k)
				if !c.Take(id) {
					continue
				}
				rng := Rng(c.Seed, id)
				n := 1 + rng.Intn(g.max)
				if rng.Intn(8) == 0 {
					n = 1 + rng.Intn(3)
				}
				recs := GenRecords(s, g.kind, n, rng, c.Thorough)
				part := RandomPartition(len(recs), rng)
				page := PageSizes(maxPart(part), rng, 1)[0]
				cs := &RTCase{ID: id, Shape: sh, Gen: g.kind, Recs: recs, Partition: part, Page: page, Codec: codec}
				f(cs)
			}
		}
	}
}

func maxPart(p []int) int {
	m := 0
	for _, x := range p {
		if x > m {
			m = x
		}
	}
	return m
}

func pickSpread(rs []*dremel.Tree, n int) []*dremel.Tree {
	if n >= len(rs) {
		return rs
	}
	out := make([]*dremel.Tree, 0, n)
	for i := 0; i < n; i++ {
		out = append(out, rs[i*len(rs)/n])
	}
	return out
}

func min(a, b int) int {
	if a < b {
		return a
	}
	return b
}

var _ = rand.Int
