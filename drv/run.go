package drv

import (
	"errors"
	"fmt"
	"io"
	"reflect"
	"runtime/debug"

	"github.com/parsyl/parquet/verifkit/ref/dremel"
)

// WriteEvent is one Write call observed on the sink.
type WriteEvent struct {
	Off   int
	Len   int
	Label string // API call in progress
}

// Sink is the caller-owned destination: it records bytes and events and can
// inject a failure at the k-th write.
type Sink struct {
	Buf    []byte
	Events []WriteEvent
	Label  string

	FailAt   int    // index of the write that fails (-1: never)
	FailMode string // "transient", "sticky", "partial", "fullcount" (one call returns len(p) AND an error)
	Failed   bool   // a failure was injected
	FailedIn string // label of the API call during which it was injected
	FailSite string // classification of the failed write
	Hook     func(ev WriteEvent, p []byte)
	// FailErr: the error value the failing writes return (default ErrInjected)
	FailErr error
}

// ErrInjected is the error returned by injected faults.
var ErrInjected = errors.New("verif: injected I/O failure")

func NewSink() *Sink { return &Sink{FailAt: -1} }

func (s *Sink) failErr() error {
	if s.FailErr != nil {
		return s.FailErr
	}
	return ErrInjected
}

func (s *Sink) Write(p []byte) (int, error) {
	idx := len(s.Events)
	ev := WriteEvent{Off: len(s.Buf), Len: len(p), Label: s.Label}
	s.Events = append(s.Events, ev)
	if s.Hook != nil {
		s.Hook(ev, p)
	}
	if s.FailAt >= 0 && (idx == s.FailAt || (s.FailMode == "sticky" && idx > s.FailAt)) {
		if !s.Failed {
			s.Failed = true
			s.FailedIn = s.Label
		}
		if s.FailMode == "partial" {
			n := len(p) / 2
			s.Buf = append(s.Buf, p[:n]...)
			return n, s.failErr()
		}
		if s.FailMode == "fullcount" {
			// every byte taken, and an error all the same (a sink that stores the data and then
			// fails to sync it): legal for an io.Writer
			s.Buf = append(s.Buf, p...)
			return len(p), s.failErr()
		}
		return 0, s.failErr()
	}
	s.Buf = append(s.Buf, p...)
	return len(p), nil
}

// RichSink is a Sink that also offers the optional methods a library may look
// for on its destination (Flush, Sync, Close, WriteString, ReadFrom). They all
// succeed; data still goes through Sink.Write, so injected faults apply.
type RichSink struct {
	*Sink
	Flushes, Syncs, Closes int
}

func (r *RichSink) Flush() error { r.Flushes++; return nil }
func (r *RichSink) Sync() error  { r.Syncs++; return nil }
func (r *RichSink) Close() error { r.Closes++; return nil }
func (r *RichSink) WriteString(s string) (int, error) {
	return r.Sink.Write([]byte(s))
}
func (r *RichSink) ReadFrom(src io.Reader) (int64, error) {
	buf := make([]byte, 32<<10)
	var total int64
	for {
		n, err := src.Read(buf)
		if n > 0 {
			m, werr := r.Sink.Write(buf[:n])
			total += int64(m)
			if werr != nil {
				return total, werr
			}
		}
		if err == io.EOF {
			return total, nil
		}
		if err != nil {
			return total, err
		}
	}
}

// Op is one step of a writer history.
type Op struct {
	Kind string // "add", "write", "close"
	Rec  *dremel.Tree
}

// WriteOutcome is what the API returned while executing a history.
type WriteOutcome struct {
	CtorErr  error
	OpErrs   []error // per op (nil for add)
	Panic    interface{}
	Stack    string
	PanicIn  string
	Finished bool
}

// FirstErr returns the first error of the history and the label of the call.
func (o *WriteOutcome) FirstErr() (error, string) {
	if o.CtorErr != nil {
		return o.CtorErr, "new"
	}
	for i, e := range o.OpErrs {
		if e != nil {
			return e, fmt.Sprintf("op%d", i)
		}
	}
	return nil, ""
}

// RunHistory executes ops against a fresh writer on sink. After each Add the
// record handed over is scrambled (pointees and slice elements overwritten),
// so any aliasing of caller memory by the writer shows up in the output.
func RunHistory(sh *Shape, sink *Sink, page, codec int, ops []Op, scramble bool) (out WriteOutcome) {
	sc := sh.Schema()
	defer func() {
		if r := recover(); r != nil {
			out.Panic = r
			out.Stack = string(debug.Stack())
			out.PanicIn = sink.Label
		}
	}()
	sink.Label = "new"
	w, err := sh.NewWriter(sink, page, codec)
	if err != nil {
		out.CtorErr = err
		return out
	}
	out.OpErrs = make([]error, len(ops))
	for i, op := range ops {
		switch op.Kind {
		case "add":
			sink.Label = "add"
			v := sc.ToGo(op.Rec)
			w.Add(v.Interface())
			if scramble {
				Scramble(v)
			}
		case "write":
			sink.Label = "write"
			out.OpErrs[i] = w.Write()
		case "close":
			sink.Label = "close"
			out.OpErrs[i] = w.Close()
		}
		if out.OpErrs[i] != nil {
			return out
		}
	}
	out.Finished = true
	return out
}

// HistoryOf builds the standard history: batches of records, a Write after
// each, then Close.
func HistoryOf(recs []*dremel.Tree, partition []int) []Op {
	var ops []Op
	i := 0
	for _, n := range partition {
		for j := 0; j < n; j++ {
			ops = append(ops, Op{Kind: "add", Rec: recs[i]})
			i++
		}
		ops = append(ops, Op{Kind: "write"})
	}
	ops = append(ops, Op{Kind: "close"})
	return ops
}

// Scramble overwrites everything reachable from v through pointers and slices
// (the memory a caller may legitimately reuse after Add returned).
func Scramble(v reflect.Value) {
	switch v.Kind() {
	case reflect.Ptr:
		if !v.IsNil() {
			Scramble(v.Elem())
			junk(v.Elem())
		}
	case reflect.Slice:
		for i := 0; i < v.Len(); i++ {
			Scramble(v.Index(i))
			junk(v.Index(i))
		}
	case reflect.Struct:
		for i := 0; i < v.NumField(); i++ {
			if v.Field(i).CanSet() || v.Field(i).Kind() == reflect.Ptr || v.Field(i).Kind() == reflect.Slice || v.Field(i).Kind() == reflect.Struct {
				Scramble(v.Field(i))
			}
		}
	}
}

func junk(v reflect.Value) {
	if !v.CanSet() {
		return
	}
	switch v.Kind() {
	case reflect.Int32, reflect.Int64:
		v.SetInt(-559038737)
	case reflect.Uint32, reflect.Uint64:
		v.SetUint(0xdeadbeef)
	case reflect.Float32, reflect.Float64:
		v.SetFloat(-6.66e6)
	case reflect.Bool:
		v.SetBool(!v.Bool())
	case reflect.String:
		v.SetString("JUNK-AFTER-ADD")
	case reflect.Struct:
		for i := 0; i < v.NumField(); i++ {
			f := v.Field(i)
			switch f.Kind() {
			case reflect.Ptr, reflect.Slice:
				// already scrambled through; drop the reference too
				if f.CanSet() {
					f.Set(reflect.Zero(f.Type()))
				}
			default:
				junk(f)
			}
		}
	}
}

// ReadEvent is one call observed on the source.
type ReadEvent struct {
	Seek   bool
	Off    int64 // position before the call
	Want   int
	Got    int
	EOF    bool
	Failed bool
}

// Source is the caller-owned io.ReadSeeker over a byte slice: it records
// calls, fragments reads and injects failures.
type Source struct {
	Data []byte
	pos  int64

	Calls int
	// Frag decides how many bytes (1..want) a read returns; nil = all.
	Frag func(want int, off int64) int
	// EOFWithData: return io.EOF together with the final bytes.
	EOFWithData bool
	FailAt      int    // index of the call (Read or Seek) that fails; -1 never
	FailMode    string // "zero" (0, err), "partial" (n/2, err) — Seek always fails plainly
	Sticky      bool
	Failed      bool
	FailedSeek  bool
	FailOff     int64
	ShortReads  int
	ShortSites  map[string]int // caller classification of short reads
	Log         bool
	Events      []ReadEvent
	SiteOf      func() string
	EOFHits     int
}

func NewSource(b []byte) *Source { return &Source{Data: b, FailAt: -1} }

// SetPos places the read position before the source is handed over (-1: end).
func (s *Source) SetPos(at int) {
	if at < 0 || at > len(s.Data) {
		at = len(s.Data)
	}
	s.pos = int64(at)
}

// RichSource is a Source that also offers ReadByte, ReadAt and WriteTo (what
// *os.File, bytes.Reader and bufio.Reader offer); every such call is a source
// call like Read: it is counted, fragmented and subject to the injected fault.
type RichSource struct{ *Source }

func (r RichSource) ReadByte() (byte, error) {
	var b [1]byte
	for {
		n, err := r.Source.Read(b[:])
		if n == 1 {
			return b[0], nil
		}
		if err != nil {
			return 0, err
		}
	}
}

func (r RichSource) ReadAt(p []byte, off int64) (int, error) {
	if r.Source.fail() {
		if !r.Source.Failed {
			r.Source.Failed = true
			r.Source.FailOff = off
		}
		return 0, ErrInjected
	}
	if off >= int64(len(r.Source.Data)) {
		return 0, io.EOF
	}
	n := copy(p, r.Source.Data[off:])
	if n < len(p) {
		return n, io.EOF
	}
	return n, nil
}

func (r RichSource) WriteTo(w io.Writer) (int64, error) {
	buf := make([]byte, 4096)
	var total int64
	for {
		n, err := r.Source.Read(buf)
		if n > 0 {
			m, werr := w.Write(buf[:n])
			total += int64(m)
			if werr != nil {
				return total, werr
			}
		}
		if err == io.EOF {
			return total, nil
		}
		if err != nil {
			return total, err
		}
	}
}

func (s *Source) fail() bool {
	idx := s.Calls
	s.Calls++
	if s.FailAt >= 0 && (idx == s.FailAt || (s.Sticky && idx > s.FailAt)) {
		return true
	}
	return false
}

func (s *Source) Read(p []byte) (int, error) {
	if s.fail() {
		if !s.Failed {
			s.Failed = true
			s.FailOff = s.pos
		}
		n := 0
		if s.FailMode == "partial" && len(p) > 1 && s.pos < int64(len(s.Data)) {
			n = copy(p[:len(p)/2], s.Data[s.pos:])
			s.pos += int64(n)
		}
		if s.Log {
			s.Events = append(s.Events, ReadEvent{Off: s.pos, Want: len(p), Got: n, Failed: true})
		}
		if s.FailMode == "eof" {
			return n, io.EOF
		}
		return n, ErrInjected
	}
	if len(p) == 0 {
		return 0, nil
	}
	if s.pos >= int64(len(s.Data)) {
		return 0, io.EOF
	}
	want := len(p)
	avail := int(int64(len(s.Data)) - s.pos)
	n := want
	if n > avail {
		n = avail
	}
	if s.Frag != nil {
		k := s.Frag(n, s.pos)
		if k < 1 {
			k = 1
		}
		if k < n {
			n = k
		}
	}
	copy(p, s.Data[s.pos:s.pos+int64(n)])
	off := s.pos
	s.pos += int64(n)
	if n < want && n < avail {
		s.ShortReads++
		if s.SiteOf != nil {
			if s.ShortSites == nil {
				s.ShortSites = map[string]int{}
			}
			s.ShortSites[s.SiteOf()]++
		}
	}
	var err error
	if s.EOFWithData && s.pos == int64(len(s.Data)) {
		err = io.EOF
		s.EOFHits++
	}
	if s.Log {
		s.Events = append(s.Events, ReadEvent{Off: off, Want: want, Got: n, EOF: err != nil})
	}
	return n, err
}

func (s *Source) Seek(off int64, whence int) (int64, error) {
	if s.fail() {
		if !s.Failed {
			s.Failed = true
			s.FailedSeek = true
			s.FailOff = s.pos
		}
		return 0, ErrInjected
	}
	var np int64
	switch whence {
	case io.SeekStart:
		np = off
	case io.SeekCurrent:
		np = s.pos + off
	case io.SeekEnd:
		np = int64(len(s.Data)) + off
	default:
		return 0, errors.New("verif source: bad whence")
	}
	if np < 0 {
		return 0, errors.New("verif source: seek before start")
	}
	if s.Log {
		s.Events = append(s.Events, ReadEvent{Seek: true, Off: s.pos, Want: int(np)})
	}
	s.pos = np
	return np, nil
}

// ReadResult is everything the reader API returned for one file.
type ReadResult struct {
	CtorErr error
	Rows    int64
	Recs    []*dremel.Tree
	Err     error // Error() after Next returned false
	Panic   interface{}
	// Held: the Go values the records were scanned into (pointers to sh.Type)
	Held     []reflect.Value
	Stack    string
	NextTrue int
	Capped   bool   // stopped by the logical iteration cap
	Drift    string // a scanned record changed during later reads
	// NextAfterEnd: Next() returned true again after having returned false.
	NextAfterEnd bool
}

// Reported: the reader reported an error somewhere.
func (r *ReadResult) Reported() bool { return r.CtorErr != nil || r.Err != nil }

// ScanAfterEnd makes ReadAll call Scan once more after Next has returned false
// (set by the fault-enumeration checks of the reader).
var ScanAfterEnd bool

// ReadAll drives NewParquetReader/Next/Scan/Error over src. cap bounds the
// number of Next()==true iterations (logical step bound instead of a
// timeout).
func ReadAll(sh *Shape, src io.ReadSeeker, cap int) (res ReadResult) {
	sc := sh.Schema()
	defer func() {
		if r := recover(); r != nil {
			res.Panic = r
			res.Stack = string(debug.Stack())
		}
	}()
	rd, err := sh.NewReader(src)
	if err != nil {
		res.CtorErr = err
		return res
	}
	res.Rows = rd.Rows()
	var held []reflect.Value
	for rd.Next() {
		res.NextTrue++
		dst := reflect.New(sh.Type)
		rd.Scan(dst.Interface())
		held = append(held, dst)
		res.Recs = append(res.Recs, sc.FromGo(dst.Elem()))
		if res.NextTrue >= cap {
			res.Capped = true
			break
		}
	}
	res.Err = rd.Error()
	if ScanAfterEnd && !res.Capped {
		// a caller that scans once more after Next returned false ("scan, then look at what
		// Next said"): whatever it gets, the call must not panic
		scratch := reflect.New(sh.Type)
		rd.Scan(scratch.Interface())
		if e := rd.Error(); res.Err == nil && e != nil {
			res.Err = e
		}
	}
	if !res.Capped {
		if rd.Next() {
			res.NextAfterEnd = true
		}
	}
	res.Held = held
	for i, h := range held {
		if t := sc.FromGo(h.Elem()); !dremel.Equal(t, res.Recs[i]) {
			res.Drift = fmt.Sprintf("record %d changed after it was scanned: was %s, now %s", i, sc.Render(res.Recs[i]), sc.Render(t))
			break
		}
	}
	return res
}

// CompareRecs returns "" if got equals want, else a description of the first
// difference.
func CompareRecs(sc *dremel.Schema, want, got []*dremel.Tree) string {
	for i := 0; i < len(want) && i < len(got); i++ {
		if !dremel.Equal(want[i], got[i]) {
			return fmt.Sprintf("record %d of %d differs at %s (written vs read); wrote %s, read %s", i, len(want), sc.Diff(want[i], got[i]), clip(sc.Render(want[i])), clip(sc.Render(got[i])))
		}
	}
	if len(want) != len(got) {
		return fmt.Sprintf("wrote %d records, read %d", len(want), len(got))
	}
	return ""
}

func clip(s string) string {
	if len(s) > 600 {
		return s[:600] + "…"
	}
	return s
}
