package drv

import (
	"fmt"
	"strings"

	"github.com/parsyl/parquet/verifkit/ref/dremel"
	"github.com/parsyl/parquet/verifkit/ref/pqfile"
)

func init() {
	RegisterProp("C01", func(c *Ctx) { runRT(c, monC01) })
	RegisterProp("C02", func(c *Ctx) { runRT(c, monC02) })
	RegisterProp("C03", func(c *Ctx) { runRT(c, monC03) })
}

type rtMonitor func(c *Ctx, cs *RTCase, file []byte) bool // returns false on violation

// WriteCase writes the case's file through the generated writer and reports
// write-side failures (error or panic on a healthy sink) as violations of the
// running property.
func WriteCase(c *Ctx, cs *RTCase, scramble bool) ([]byte, bool) {
	sink := NewSink()
	out := RunHistory(cs.Shape, sink, cs.Page, cs.Codec, HistoryOf(cs.Recs, cs.Partition), scramble)
	if out.Panic != nil {
		c.Out.Violate(Violation{Prop: c.Prop, Key: key(cs.Shape, "write_panic"), Case: cs.ID, Shape: cs.Shape.Name,
			Detail: fmt.Sprintf("writer panicked during %s: %v\n%s", out.PanicIn, out.Panic, clip(out.Stack))})
		return nil, false
	}
	if err, where := out.FirstErr(); err != nil {
		c.Out.Violate(Violation{Prop: c.Prop, Key: key(cs.Shape, "write_error"), Case: cs.ID, Shape: cs.Shape.Name,
			Detail: fmt.Sprintf("writer returned an error on a healthy sink at %s: %v", where, err)})
		return nil, false
	}
	return sink.Buf, true
}

func key(sh *Shape, kind string) string {
	if sh.Sig != "" {
		return "shape=" + sh.Sig + ";kind=" + kind
	}
	return "shape=" + sh.Name + ";kind=" + kind
}

func runRT(c *Ctx, mon rtMonitor) {
	scale := DefaultScale(c.Thorough)
	for _, sh := range c.SelShapes() {
		RTWorkload(c, sh, scale, func(cs *RTCase) {
			c.Out.Count("cases", 1)
			file, ok := WriteCase(c, cs, true)
			if !ok {
				return
			}
			c.Out.Count("files", 1)
			c.Out.Count("records", int64(len(cs.Recs)))
			c.Out.Count(fmt.Sprintf("codec_%s", CodecNames[cs.Codec]), 1)
			c.Out.Count("gen_"+string(cs.Gen), 1)
			c.Out.Count("bytes", int64(len(file)))
			mon(c, cs, file)
			c.Out.Sample(map[string]interface{}{"case": cs.ID, "records": len(cs.Recs), "partition": clipInts(cs.Partition), "page": cs.Page,
				"codec": CodecNames[cs.Codec], "file_bytes": len(file), "first_record": clip(cs.Shape.Schema().Render(cs.Recs[0]))})
		})
	}
}

func clipInts(x []int) []int {
	if len(x) > 12 {
		return x[:12]
	}
	return x
}

// layoutStats observes, through the reference parser, what the file actually
// contains: row groups, pages per chunk, multi-page columns by kind. It feeds
// the evidence and the non-triviality rule.
type layoutStats struct {
	RowGroups   int
	Pages       int
	MaxPages    int
	multiBoolRq bool
	multiBoolOp bool
	multiRep    bool
	longList    bool
}

func observeLayout(c *Ctx, cs *RTCase, file []byte) (*pqfile.Decoded, layoutStats) {
	var ls layoutStats
	d, err := pqfile.Validate(file, pqfile.Expect{Codec: -1, Records: -1, Lenient: true})
	if err != nil || d == nil {
		return nil, ls
	}
	ls.RowGroups = len(d.RowGroups)
	for _, rg := range d.RowGroups {
		for _, ch := range rg.Chunks {
			n := len(ch.Pages)
			ls.Pages += n
			if n > ls.MaxPages {
				ls.MaxPages = n
			}
			if n >= 2 && ch.Leaf != nil {
				if ch.Leaf.Type == pqfile.TBoolean && ch.Leaf.MaxDef == 0 {
					ls.multiBoolRq = true
				}
				if ch.Leaf.Type == pqfile.TBoolean && ch.Leaf.MaxDef > 0 {
					ls.multiBoolOp = true
				}
				if ch.Leaf.MaxRep > 0 {
					ls.multiRep = true
				}
			}
			for _, pd := range ch.Data {
				if pd == nil {
					continue
				}
				run := 0
				for _, r := range pd.Reps {
					if r != 0 {
						run++
						if run >= 8 {
							ls.longList = true
						}
					} else {
						run = 0
					}
				}
			}
		}
	}
	c.Out.Count("row_groups", int64(ls.RowGroups))
	c.Out.Count("pages", int64(ls.Pages))
	c.Out.Max("max_pages_in_chunk", int64(ls.MaxPages))
	c.Out.Max("max_row_groups", int64(ls.RowGroups))
	if ls.multiBoolRq {
		c.Out.Count("multipage_bool_required_files", 1)
	}
	if ls.multiBoolOp {
		c.Out.Count("multipage_bool_optional_files", 1)
	}
	if ls.multiRep {
		c.Out.Count("multipage_repeated_files", 1)
	}
	if ls.RowGroups >= 2 && cs.Codec != CodecUncompressed {
		c.Out.Count("multi_rowgroup_compressed_files", 1)
	}
	return d, ls
}

func (ls layoutStats) nontrivial() bool {
	return ls.MaxPages >= 2 || ls.RowGroups >= 2 || ls.longList
}

// ---------- C01 ----------

func monC01(c *Ctx, cs *RTCase, file []byte) bool {
	sh := cs.Shape
	sc := sh.Schema()
	_, ls := observeLayout(c, cs, file)
	c.Out.Distinct(cs.Sig(), ls.nontrivial())
	res := ReadAll(sh, NewSource(file), len(cs.Recs)+5)
	c.Out.Count("records_read", int64(len(res.Recs)))
	bad := func(kind, detail string) bool {
		c.Out.Violate(Violation{Prop: "C01", Key: key(sh, kind), Case: cs.ID, Shape: sh.Name, Detail: detail})
		return false
	}
	n := len(cs.Recs)
	switch {
	case res.Panic != nil:
		return bad("read_panic", fmt.Sprintf("reader panicked: %v\n%s", res.Panic, clip(res.Stack)))
	case res.CtorErr != nil:
		return bad("read_error", fmt.Sprintf("NewParquetReader failed on a file the writer produced: %v", res.CtorErr))
	case res.Err != nil:
		return bad("read_error", fmt.Sprintf("Error() = %v after %d of %d rows", res.Err, res.NextTrue, n))
	case res.Rows != int64(n):
		return bad("rows", fmt.Sprintf("Rows() = %d, %d records were written", res.Rows, n))
	case res.NextTrue != n || res.Capped:
		return bad("next_count", fmt.Sprintf("Next() was true %d times, %d records were written", res.NextTrue, n))
	case res.NextAfterEnd:
		return bad("next_after_end", "Next() returned true again after it had returned false")
	}
	if diff := CompareRecs(sc, cs.Recs, res.Recs); diff != "" {
		return bad("mismatch", diff)
	}
	if res.Drift != "" {
		return bad("scan_drift", res.Drift)
	}
	return true
}

// ---------- C02 ----------

func monC02(c *Ctx, cs *RTCase, file []byte) bool {
	sh := cs.Shape
	sc := sh.Schema()
	page, codec := cs.Page, cs.Codec
	if page <= 0 {
		page = 1000 // documented default of MaxPageSize
	}
	if codec == CodecDefault {
		codec = CodecSnappy // documented default compression
	}
	d, err := pqfile.Validate(file, pqfile.Expect{Schema: &sc.Root.Node, Codec: int32(codec), MaxPageRecs: page, Records: int64(len(cs.Recs))})
	if err != nil {
		c.Out.Violate(Violation{Prop: "C02", Key: key(sh, "container"), Case: cs.ID, Shape: sh.Name, Detail: err.Error()})
		return false
	}
	_, ls := observeLayout(c, cs, file)
	c.Out.Distinct(fmt.Sprintf("%s|%v|%d|%d", sh.Name, cs.Partition, cs.Page, cs.Codec), ls.RowGroups >= 2 || ls.MaxPages >= 2)
	for k, n := range d.Evaluated {
		c.Out.Count("check_"+k, int64(n))
	}
	c.Out.Count("footer_bytes", int64(d.File.FooterLen))
	// row groups must be the non-empty batches
	if len(d.Failures) == 0 && len(d.RowGroups) != len(cs.Partition) {
		d.Failures = append(d.Failures, pqfile.Failure{Kind: "row_group_count", Msg: fmt.Sprintf("%d row groups for %d written batches", len(d.RowGroups), len(cs.Partition))})
	}
	if len(d.Failures) == 0 {
		for i, rg := range d.RowGroups {
			if int(rg.NumRows) != cs.Partition[i] {
				d.Failures = append(d.Failures, pqfile.Failure{Kind: "row_group_rows", Msg: fmt.Sprintf("row group %d has num_rows %d, batch had %d records", i, rg.NumRows, cs.Partition[i])})
				break
			}
		}
	}
	if len(d.Failures) > 0 && sh.Meta["collapse_kinds"] != "" {
		// a shape that exists to pin down ONE known defect: every way in which its files are
		// wrong is the same finding
		c.Out.Violate(Violation{Prop: "C02", Key: key(sh, "invalid_file"), Case: cs.ID, Shape: sh.Name, Detail: d.Failures[0].String()})
		return false
	}
	if len(d.Failures) > 0 {
		seen := map[string]bool{}
		for _, f := range d.Failures {
			if seen[f.Kind] {
				continue
			}
			seen[f.Kind] = true
			c.Out.Violate(Violation{Prop: "C02", Key: key(sh, f.Kind), Case: cs.ID, Shape: sh.Name, Detail: f.String()})
		}
		return false
	}
	return true
}

// ---------- C03 ----------

// ColumnTriples concatenates the decoded (rep, def, value) entries of column
// ci over all row groups and pages.
func ColumnTriples(d *pqfile.Decoded, ci int) ([]dremel.Triple, error) {
	var out []dremel.Triple
	for gi, rg := range d.RowGroups {
		if ci >= len(rg.Chunks) {
			return nil, fmt.Errorf("row group %d has no chunk %d", gi, ci)
		}
		ch := rg.Chunks[ci]
		for pi, pd := range ch.Data {
			if pd == nil {
				return nil, fmt.Errorf("row group %d column %d page %d did not decode", gi, ci, pi)
			}
			vi := 0
			n := len(pd.Defs)
			if ch.Leaf.MaxDef == 0 {
				n = len(pd.Vals)
			}
			for i := 0; i < n; i++ {
				t := dremel.Triple{}
				if ch.Leaf.MaxRep > 0 {
					t.Rep = pd.Reps[i]
				}
				if ch.Leaf.MaxDef > 0 {
					t.Def = pd.Defs[i]
				}
				if int(t.Def) == ch.Leaf.MaxDef {
					t.HasVal = true
					t.V = pd.Vals[vi]
					vi++
				}
				out = append(out, t)
			}
		}
	}
	return out, nil
}

func monC03(c *Ctx, cs *RTCase, file []byte) bool {
	sh := cs.Shape
	sc := sh.Schema()
	bad := func(kind, detail string) bool {
		c.Out.Violate(Violation{Prop: "C03", Key: key(sh, kind), Case: cs.ID, Shape: sh.Name, Detail: detail})
		return false
	}
	d, err := pqfile.Validate(file, pqfile.Expect{Codec: -1, Records: -1, Lenient: true})
	if err != nil {
		return bad("container", err.Error())
	}
	if len(d.Leaves) != len(sc.Leaves) {
		return bad("columns", fmt.Sprintf("file has %d leaf columns, the struct has %d", len(d.Leaves), len(sc.Leaves)))
	}
	for _, f := range d.Failures {
		if f.Kind == "page_sections" || f.Kind == "page_inflates" || f.Kind == "page_walk" || f.Kind == "page_type" || f.Kind == "chunks_match_leaves" {
			return bad("undecodable", f.String())
		}
	}
	// expected striping
	want := make([][]dremel.Triple, len(sc.Leaves))
	for _, r := range cs.Recs {
		cols := sc.Shred(r)
		for i := range cols {
			want[i] = append(want[i], cols[i]...)
		}
		c.Out.Distinct(sh.Name+"|"+StructSig(r), NonTrivialStruct(r))
	}
	got := make([][]dremel.Triple, len(sc.Leaves))
	for ci, leaf := range sc.Leaves {
		name := strings.Join(leaf.Path, ".")
		ts, err := ColumnTriples(d, ci)
		if err != nil {
			return bad("undecodable", err.Error())
		}
		got[ci] = ts
		c.Out.Count("triples_compared", int64(len(ts)))
		for _, t := range ts {
			c.Out.Max("maxdef_seen_"+name, int64(t.Def))
			if t.Def > 0 && int(t.Def) < leaf.MaxDef {
				c.Out.Count("intermediate_def_"+name, 1)
			}
		}
		if leaf.MaxDef >= 2 {
			c.Out.SetAdd("cols_with_intermediate_levels", name)
		}
		for i := 0; i < len(ts) && i < len(want[ci]); i++ {
			if ts[i] != want[ci][i] {
				return bad("striping", fmt.Sprintf("column %s entry %d: file has %v, canonical striping is %v", name, i, ts[i], want[ci][i]))
			}
		}
		if len(ts) != len(want[ci]) {
			return bad("striping", fmt.Sprintf("column %s: file has %d entries, canonical striping has %d", name, len(ts), len(want[ci])))
		}
	}
	// spec-only reassembly
	per := make([][][]dremel.Triple, len(sc.Leaves))
	for ci := range got {
		recs, err := dremel.SplitRecords(got[ci])
		if err != nil {
			return bad("assembly", err.Error())
		}
		if len(recs) != len(cs.Recs) {
			return bad("assembly", fmt.Sprintf("column %d holds %d records, %d were written", ci, len(recs), len(cs.Recs)))
		}
		per[ci] = recs
	}
	for ri, r := range cs.Recs {
		cols := make([][]dremel.Triple, len(sc.Leaves))
		for ci := range cols {
			cols[ci] = per[ci][ri]
		}
		back, err := sc.AssembleRecord(cols)
		if err != nil {
			return bad("assembly", fmt.Sprintf("record %d: %v", ri, err))
		}
		if !dremel.Equal(back, r) {
			return bad("assembly", fmt.Sprintf("record %d reassembles to %s, wrote %s", ri, clip(sc.Render(back)), clip(sc.Render(r))))
		}
		c.Out.Count("records_assembled", 1)
	}
	return true
}
