package drv

import (
	"bufio"
	"encoding/json"
	"fmt"
	"os"
	"sort"
	"sync"
)

// Violation is one refutation of a property, with everything needed to
// replay it.
type Violation struct {
	Prop   string                 `json:"prop"`
	Key    string                 `json:"key"`  // canonical identity (matched against known_findings.json)
	Case   string                 `json:"case"` // case id for -only
	Shape  string                 `json:"shape,omitempty"`
	Detail string                 `json:"detail"`
	Extra  map[string]interface{} `json:"extra,omitempty"`
}

// Out collects what one child process observed and writes it as JSON lines.
type Out struct {
	mu       sync.Mutex
	f        *os.File
	w        *bufio.Writer
	journal  *os.File
	Counters map[string]int64
	Maxes    map[string]int64
	distinct map[uint64]struct{}
	nontriv  map[uint64]struct{}
	sets     map[string]map[string]struct{}
	samples  []interface{}
	nviol    int
	maxViol  int
}

// NewOut opens the result and journal files.
func NewOut(path, journal string) (*Out, error) {
	o := &Out{Counters: map[string]int64{}, Maxes: map[string]int64{}, distinct: map[uint64]struct{}{}, nontriv: map[uint64]struct{}{},
		sets: map[string]map[string]struct{}{}, maxViol: 200}
	if path != "" {
		f, err := os.Create(path)
		if err != nil {
			return nil, err
		}
		o.f = f
		o.w = bufio.NewWriter(f)
	}
	if journal != "" {
		j, err := os.Create(journal)
		if err != nil {
			return nil, err
		}
		o.journal = j
	}
	return o, nil
}

func (o *Out) line(v interface{}) {
	b, _ := json.Marshal(v)
	if o.w != nil {
		o.w.Write(b)
		o.w.WriteByte('\n')
	} else {
		fmt.Println(string(b))
	}
}

// Journal records the case about to run, so that a process-fatal error can be
// attributed to it.
func (o *Out) Journal(caseID string) {
	if o.journal == nil {
		return
	}
	b := make([]byte, 512)
	for i := range b {
		b[i] = ' '
	}
	copy(b, caseID)
	b[511] = '\n'
	o.journal.WriteAt(b, 0)
}

// Violate reports a violation.
func (o *Out) Violate(v Violation) {
	o.mu.Lock()
	defer o.mu.Unlock()
	o.nviol++
	if o.nviol > o.maxViol {
		o.Counters["violations_suppressed"]++
		return
	}
	o.line(map[string]interface{}{"t": "viol", "v": v})
	if o.w != nil {
		o.w.Flush()
	}
}

// Count adds to a counter.
func (o *Out) Count(k string, n int64) {
	o.mu.Lock()
	o.Counters[k] += n
	o.mu.Unlock()
}

// Max keeps the maximum.
func (o *Out) Max(k string, n int64) {
	o.mu.Lock()
	if n > o.Maxes[k] {
		o.Maxes[k] = n
	}
	o.mu.Unlock()
}

// Distinct records a case signature; nontrivial says whether it counts
// towards distinct_nontrivial.
func (o *Out) Distinct(sig string, nontrivial bool) {
	h := Hash64(sig)
	o.mu.Lock()
	o.distinct[h] = struct{}{}
	if nontrivial {
		o.nontriv[h] = struct{}{}
	}
	o.mu.Unlock()
}

// SetAdd adds a member to a named set (e.g. run shapes seen, fault sites).
func (o *Out) SetAdd(set, member string) {
	o.mu.Lock()
	m := o.sets[set]
	if m == nil {
		m = map[string]struct{}{}
		o.sets[set] = m
	}
	if len(m) < 5000 {
		m[member] = struct{}{}
	}
	o.mu.Unlock()
}

// Sample keeps up to a few written-out cases.
func (o *Out) Sample(v interface{}) {
	o.mu.Lock()
	if len(o.samples) < 4 {
		o.samples = append(o.samples, v)
	}
	o.mu.Unlock()
}

// Inconclusive records a reason for which this child could not decide.
func (o *Out) Inconclusive(reason string) {
	o.mu.Lock()
	o.line(map[string]interface{}{"t": "inconclusive", "reason": reason})
	o.mu.Unlock()
}

// Close flushes counters and marks clean completion.
func (o *Out) Close() {
	o.mu.Lock()
	defer o.mu.Unlock()
	o.line(map[string]interface{}{"t": "cnt", "v": o.Counters})
	o.line(map[string]interface{}{"t": "max", "v": o.Maxes})
	flush := func(tag string, m map[uint64]struct{}) {
		hs := make([]uint64, 0, len(m))
		for h := range m {
			hs = append(hs, h)
		}
		sort.Slice(hs, func(i, j int) bool { return hs[i] < hs[j] })
		for i := 0; i < len(hs); i += 4096 {
			j := i + 4096
			if j > len(hs) {
				j = len(hs)
			}
			o.line(map[string]interface{}{"t": tag, "h": hs[i:j]})
		}
	}
	flush("dist", o.distinct)
	flush("nontriv", o.nontriv)
	for name, m := range o.sets {
		ms := make([]string, 0, len(m))
		for k := range m {
			ms = append(ms, k)
		}
		sort.Strings(ms)
		o.line(map[string]interface{}{"t": "set", "name": name, "v": ms})
	}
	for _, s := range o.samples {
		o.line(map[string]interface{}{"t": "sample", "v": s})
	}
	o.line(map[string]interface{}{"t": "done"})
	if o.w != nil {
		o.w.Flush()
		o.f.Close()
	}
	if o.journal != nil {
		o.journal.Close()
	}
}
