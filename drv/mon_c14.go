package drv

import (
	"bytes"
	"fmt"
	"reflect"
	"sort"
	"time"
	"unsafe"

	"github.com/parsyl/parquet/verifkit/ref/dremel"
	"github.com/parsyl/parquet/verifkit/ref/pqfile"
)

func init() { RegisterProp("C14", runC14) }

func isExcludedField(f reflect.StructField) bool {
	if f.Anonymous && f.Type.Kind() == reflect.Struct {
		return f.Tag.Get("parquet") == "-" || !f.IsExported()
	}
	if !f.IsExported() {
		return true
	}
	return f.Tag.Get("parquet") == "-"
}

// settable returns an assignable view of a struct field even if it is
// unexported (the harness owns the value; this is test-side only).
func settable(f reflect.Value) reflect.Value {
	if f.CanSet() {
		return f
	}
	return reflect.NewAt(f.Type(), unsafe.Pointer(f.UnsafeAddr())).Elem()
}

// FillExcluded stores non-zero junk in every excluded field reachable from v
// (an addressable struct value). It returns how many fields it filled.
func FillExcluded(v reflect.Value) int {
	n := 0
	t := v.Type()
	for i := 0; i < t.NumField(); i++ {
		sf := t.Field(i)
		fv := v.Field(i)
		if isExcludedField(sf) {
			dst := settable(fv)
			switch dst.Kind() {
			case reflect.Int32, reflect.Int64, reflect.Int:
				dst.SetInt(-77)
			case reflect.Uint32, reflect.Uint64:
				dst.SetUint(77)
			case reflect.Float32, reflect.Float64:
				dst.SetFloat(7.7)
			case reflect.String:
				dst.SetString("EXCLUDED-JUNK")
			case reflect.Bool:
				dst.SetBool(true)
			case reflect.Map:
				dst.Set(reflect.MakeMap(dst.Type()))
			case reflect.Slice:
				dst.Set(reflect.MakeSlice(dst.Type(), 2, 2))
			case reflect.Chan:
				dst.Set(reflect.MakeChan(dst.Type(), 1))
			case reflect.Ptr:
				dst.Set(reflect.New(dst.Type().Elem()))
			case reflect.Func:
				dst.Set(reflect.MakeFunc(dst.Type(), func([]reflect.Value) []reflect.Value { return nil }))
			case reflect.Interface:
				dst.Set(reflect.ValueOf("iface-junk"))
			case reflect.Struct:
				if dst.Type() == reflect.TypeOf(time.Time{}) {
					dst.Set(reflect.ValueOf(time.Unix(1234567, 0)))
				} else {
					fillJunk(dst)
				}
			}
			n++
			continue
		}
		// included: recurse into groups
		switch fv.Kind() {
		case reflect.Struct:
			n += FillExcluded(fv)
		case reflect.Ptr:
			if !fv.IsNil() && fv.Elem().Kind() == reflect.Struct {
				n += FillExcluded(fv.Elem())
			}
		case reflect.Slice:
			if fv.Type().Elem().Kind() == reflect.Struct {
				for j := 0; j < fv.Len(); j++ {
					n += FillExcluded(fv.Index(j))
				}
			}
		}
	}
	return n
}

// fillJunk stores non-zero values in every field of a struct value (used for
// excluded fields of struct type).
func fillJunk(v reflect.Value) {
	for i := 0; i < v.NumField(); i++ {
		f := settable(v.Field(i))
		switch f.Kind() {
		case reflect.Int32, reflect.Int64, reflect.Int:
			f.SetInt(-78)
		case reflect.Uint32, reflect.Uint64:
			f.SetUint(78)
		case reflect.Float32, reflect.Float64:
			f.SetFloat(7.8)
		case reflect.String:
			f.SetString("EXCLUDED-JUNK-INNER")
		case reflect.Bool:
			f.SetBool(true)
		case reflect.Struct:
			fillJunk(f)
		}
	}
}

// NonZeroExcluded returns the path of the first excluded field that is not
// its zero value, or "".
func NonZeroExcluded(v reflect.Value, where string) string {
	t := v.Type()
	for i := 0; i < t.NumField(); i++ {
		sf := t.Field(i)
		fv := v.Field(i)
		p := where + "." + sf.Name
		if isExcludedField(sf) {
			if !fv.IsZero() {
				return p
			}
			continue
		}
		switch fv.Kind() {
		case reflect.Struct:
			if s := NonZeroExcluded(fv, p); s != "" {
				return s
			}
		case reflect.Ptr:
			if !fv.IsNil() && fv.Elem().Kind() == reflect.Struct {
				if s := NonZeroExcluded(fv.Elem(), p); s != "" {
					return s
				}
			}
		case reflect.Slice:
			if fv.Type().Elem().Kind() == reflect.Struct {
				for j := 0; j < fv.Len(); j++ {
					if s := NonZeroExcluded(fv.Index(j), fmt.Sprintf("%s[%d]", p, j)); s != "" {
						return s
					}
				}
			}
		}
	}
	return ""
}

// writeWith writes recs through sh's writer; fill stores junk in excluded
// fields first.
func writeWith(sh *Shape, recs []*dremel.Tree, part []int, page, codec int, fill bool) ([]byte, int, string) {
	sc := sh.Schema()
	sink := NewSink()
	filled := 0
	var perr interface{}
	var werr error
	func() {
		defer func() { perr = recover() }()
		w, err := sh.NewWriter(sink, page, codec)
		if err != nil {
			werr = err
			return
		}
		i := 0
		for _, n := range part {
			for j := 0; j < n; j++ {
				v := sc.ToGo(recs[i])
				if fill {
					filled += FillExcluded(v)
				}
				w.Add(v.Interface())
				i++
			}
			if err := w.Write(); err != nil {
				werr = err
				return
			}
		}
		werr = w.Close()
	}()
	if perr != nil {
		return nil, filled, fmt.Sprintf("writer panicked: %v", perr)
	}
	if werr != nil {
		return nil, filled, fmt.Sprintf("writer error: %v", werr)
	}
	return sink.Buf, filled, ""
}

func runC14(c *Ctx) {
	// group variants by base
	byBase := map[string][]*Shape{}
	for _, sh := range c.SelShapes() {
		if b := sh.Meta["base"]; b != "" {
			byBase[b] = append(byBase[b], sh)
		}
	}
	var bases []string
	for b := range byBase {
		bases = append(bases, b)
	}
	sort.Strings(bases)
	for _, bn := range bases {
		base := Lookup(bn)
		if base == nil {
			continue // the base did not build; reported by the orchestrator
		}
		bsc := base.Schema()
		var counter uint64
		recs, _ := EnumStructures(bsc, lensSmall, 40, &counter)
		type cfg struct {
			part  []int
			page  int
			codec int
		}
		cfgs := []cfg{{[]int{len(recs)}, 1000, 0}, {[]int{len(recs)}, 2, 1}}
		if len(recs) >= 2 {
			cfgs = append(cfgs, cfg{[]int{len(recs) / 2, len(recs) - len(recs)/2}, 3, 0})
		}
		var baseFiles [][]byte
		okBase := true
		for _, cf := range cfgs {
			b, _, msg := writeWith(base, recs, cf.part, cf.page, cf.codec, false)
			if msg != "" {
				c.Out.Inconclusive(fmt.Sprintf("base %s (%s) fails on its own (a C05 matter): %s", bn, base.Sig, msg))
				okBase = false
				break
			}
			baseFiles = append(baseFiles, b)
		}
		if !okBase {
			continue
		}
		c.Out.Count("bases", 1)
		for _, v := range byBase[bn] {
			id := v.Name
			if !c.Take(id) {
				continue
			}
			kind, desc := v.Meta["kind"], v.Meta["decor"]
			c.Out.Count("cases", 1)
			c.Out.Count("programs_run", 1)
			c.Out.Count("decor_"+kind, 1)
			c.Out.Count("decor_depth_"+v.Meta["depth"], 1)
			for _, f := range splitForms(v.Meta["forms"]) {
				c.Out.Count("form_"+f, 1)
				if v.Meta["depth"] != "1" {
					c.Out.Count("form_deep_"+f, 1)
				}
			}
			c.Out.Distinct(base.Sig+"|"+desc, v.Meta["depth"] != "1" || desc == "all-positions")
			key := fmt.Sprintf("base=%s;%s=%s", base.Sig, kind, desc)
			bad := func(k, detail string) {
				c.Out.Violate(Violation{Prop: "C14", Key: key + ";kind=" + k, Case: id, Shape: v.Name,
					Detail: fmt.Sprintf("base shape %s, variant %s (%s %s): %s", base.Sig, v.Name, kind, desc, detail), Extra: map[string]interface{}{"base": bn}})
			}
			vsc := v.Schema()
			if err := pqfile.CompareSchema(&bsc.Root.Node, &vsc.Root.Node); err != nil {
				c.Out.Inconclusive(fmt.Sprintf("variant %s does not have the base's columns by the reference's own rules: %v", id, err))
				continue
			}
			failed := false
			for ci, cf := range cfgs {
				b, filled, msg := writeWith(v, recs, cf.part, cf.page, cf.codec, kind == "excluded")
				c.Out.Count("excluded_fields_filled", int64(filled))
				if msg != "" {
					bad("runtime_failure", msg)
					failed = true
					break
				}
				c.Out.Count("pairs_compared", 1)
				if !bytes.Equal(b, baseFiles[ci]) {
					bad("bytes_differ", fmt.Sprintf("files differ from the base's for the same %d records (page %d, %s): first difference at byte %d of %d/%d", len(recs), cf.page, CodecNames[cf.codec], firstDiffIdx(b, baseFiles[ci]), len(b), len(baseFiles[ci])))
					failed = true
					break
				}
				// read back into fresh structs: values right, excluded fields zero
				rd, err := v.NewReader(NewSource(b))
				if err != nil {
					bad("read_error", err.Error())
					failed = true
					break
				}
				i := 0
				func() {
					defer func() {
						if r := recover(); r != nil {
							bad("read_panic", fmt.Sprint(r))
							failed = true
						}
					}()
					for rd.Next() && i < len(recs)+2 {
						dst := reflect.New(v.Type)
						rd.Scan(dst.Interface())
						if p := NonZeroExcluded(dst.Elem(), "rec"); p != "" {
							bad("excluded_nonzero", fmt.Sprintf("after reading record %d into a fresh struct, excluded field %s is not zero", i, p))
							failed = true
							return
						}
						if i < len(recs) && !dremel.Equal(vsc.FromGo(dst.Elem()), recs[i]) {
							bad("read_mismatch", fmt.Sprintf("record %d reads back differently: %s", i, vsc.Diff(recs[i], vsc.FromGo(dst.Elem()))))
							failed = true
							return
						}
						i++
					}
				}()
				if failed {
					break
				}
				if i != len(recs) || rd.Error() != nil {
					bad("read_mismatch", fmt.Sprintf("read %d of %d records, Error()=%v", i, len(recs), rd.Error()))
					failed = true
					break
				}
			}
			if !failed {
				c.Out.Count("variants_identical", 1)
			}
			c.Out.Sample(map[string]interface{}{"base": base.Sig, "variant": v.Name, "kind": kind, "decoration": desc, "records": len(recs)})
		}
	}
}

func splitForms(s string) []string {
	var out []string
	cur := ""
	for _, r := range s {
		if r == ',' {
			if cur != "" {
				out = append(out, cur)
			}
			cur = ""
		} else {
			cur += string(r)
		}
	}
	if cur != "" {
		out = append(out, cur)
	}
	return out
}
