package drv

import (
	"fmt"
	"strings"

	"github.com/parsyl/parquet/verifkit/ref/dremel"
	"github.com/parsyl/parquet/verifkit/ref/pqfile"
)

func init() { RegisterProp("C06", runC06) }

// histModel is the reference model of a writer history: Add appends to the
// pending batch, Write moves a non-empty pending batch to the batch list,
// Close discards what is pending.
type histModel struct {
	batches [][]*dremel.Tree
	pending []*dremel.Tree
	classes map[string]bool
}

func modelOf(h string, recs []*dremel.Tree, page int) *histModel {
	m := &histModel{classes: map[string]bool{}}
	ri := 0
	prevW := false
	for i := 0; i < len(h); i++ {
		switch h[i] {
		case 'A':
			m.pending = append(m.pending, recs[ri])
			ri++
			prevW = false
		case 'W':
			if len(m.pending) == 0 {
				switch {
				case len(m.batches) == 0 && ri == 0:
					m.classes["empty_write_leading"] = true
				case !strings.Contains(h[i+1:], "A"):
					m.classes["empty_write_trailing"] = true
				default:
					m.classes["empty_write_middle"] = true
				}
				if prevW {
					m.classes["empty_write_double"] = true
				}
			} else {
				n := len(m.pending)
				if n%page == 0 {
					m.classes["batch_multiple_of_page"] = true
				}
				if n > page && n%page == 1 {
					m.classes["batch_multiple_of_page_plus_1"] = true
				}
				if n > page {
					m.classes["batch_multi_page"] = true
				}
				m.batches = append(m.batches, m.pending)
				m.pending = nil
			}
			prevW = true
		}
	}
	if len(m.pending) > 0 {
		m.classes["pending_at_close"] = true
	}
	if len(m.batches) == 0 {
		m.classes["close_with_nothing_written"] = true
	}
	if len(m.batches) >= 2 {
		m.classes["multiple_row_groups"] = true
	}
	return m
}

func (m *histModel) all() []*dremel.Tree {
	var out []*dremel.Tree
	for _, b := range m.batches {
		out = append(out, b...)
	}
	return out
}

func opsOf(h string, recs []*dremel.Tree) []Op {
	var ops []Op
	ri := 0
	for i := 0; i < len(h); i++ {
		if h[i] == 'A' {
			ops = append(ops, Op{Kind: "add", Rec: recs[ri]})
			ri++
		} else {
			ops = append(ops, Op{Kind: "write"})
		}
	}
	return append(ops, Op{Kind: "close"})
}

// recordPool returns n records with globally unique leaf values, cycling
// through the structural enumeration of the shape.
func recordPool(s *dremel.Schema, n int) []*dremel.Tree {
	var out []*dremel.Tree
	var counter uint64
	for len(out) < n {
		rs, _ := EnumStructures(s, lensSmall, 48, &counter)
		// interleave structurally different records: stride through the enumeration
		for i := 0; i < len(rs) && len(out) < n; i++ {
			out = append(out, rs[(i*7)%len(rs)])
		}
	}
	return out
}

func checkHistory(c *Ctx, sh *Shape, id, h string, page, codec int, pool []*dremel.Tree) {
	sc := sh.Schema()
	m := modelOf(h, pool, page)
	nontrivial := false
	for k := range m.classes {
		c.Out.Count("class_"+k, 1)
		if strings.HasPrefix(k, "empty_write") || k == "pending_at_close" || k == "batch_multiple_of_page" || k == "batch_multi_page" {
			nontrivial = true
		}
	}
	c.Out.Distinct(id, nontrivial)
	c.Out.Count("cases", 1)
	bad := func(kind, detail string) {
		c.Out.Violate(Violation{Prop: "C06", Key: "shape=" + sh.Name + ";kind=" + kind, Case: id, Shape: sh.Name,
			Detail: fmt.Sprintf("history %s (A=Add, W=Write, then Close), page size %d, %s: %s", shortH(h), page, CodecNames[codec], detail)})
	}
	sink := NewSink()
	out := RunHistory(sh, sink, page, codec, opsOf(h, pool), true)
	if out.Panic != nil {
		bad("panic", fmt.Sprintf("writer panicked during %s: %v\n%s", out.PanicIn, out.Panic, clip(out.Stack)))
		return
	}
	if err, where := out.FirstErr(); err != nil {
		bad("write_error", fmt.Sprintf("error at %s on a healthy sink: %v", where, err))
		return
	}
	file := sink.Buf
	want := m.all()
	// 1. the file is valid and truthful
	d, err := pqfile.Validate(file, pqfile.Expect{Schema: &sc.Root.Node, Codec: int32(codec), MaxPageRecs: page, Records: int64(len(want))})
	if err != nil {
		bad("invalid_container", err.Error())
		return
	}
	if len(d.Failures) > 0 {
		bad("invalid_"+d.Failures[0].Kind, d.Failures[0].String())
		return
	}
	// 2. one row group per non-empty batch, in order
	if len(d.RowGroups) != len(m.batches) {
		bad("row_group_count", fmt.Sprintf("%d row groups for %d non-empty written batches", len(d.RowGroups), len(m.batches)))
		return
	}
	for i, rg := range d.RowGroups {
		if int(rg.NumRows) != len(m.batches[i]) {
			bad("row_group_rows", fmt.Sprintf("row group %d has %d rows, batch %d had %d records", i, rg.NumRows, i, len(m.batches[i])))
			return
		}
	}
	c.Out.Count("row_groups", int64(len(d.RowGroups)))
	// 3. contents by the reference (striping of exactly the written batches)
	for ci, leaf := range sc.Leaves {
		var exp []dremel.Triple
		for _, r := range want {
			exp = append(exp, sc.Shred(r)[ci]...)
		}
		got, err := ColumnTriples(d, ci)
		if err != nil {
			bad("undecodable", err.Error())
			return
		}
		if len(got) != len(exp) {
			bad("content", fmt.Sprintf("column %s holds %d entries, the written batches stripe to %d", strings.Join(leaf.Path, "."), len(got), len(exp)))
			return
		}
		for i := range got {
			if got[i] != exp[i] {
				bad("content", fmt.Sprintf("column %s entry %d is %v, expected %v", strings.Join(leaf.Path, "."), i, got[i], exp[i]))
				return
			}
		}
	}
	// 4. read back through the generated reader
	res := ReadAll(sh, NewSource(file), len(want)+5)
	switch {
	case res.Panic != nil:
		bad("read_panic", fmt.Sprintf("%v\n%s", res.Panic, clip(res.Stack)))
		return
	case res.Reported():
		bad("read_error", fmt.Sprintf("ctor=%v Error()=%v", res.CtorErr, res.Err))
		return
	case res.Rows != int64(len(want)):
		bad("rows", fmt.Sprintf("Rows() = %d, the written batches hold %d records", res.Rows, len(want)))
		return
	}
	if diff := CompareRecs(sc, want, res.Recs); diff != "" {
		bad("readback", diff)
		return
	}
	c.Out.Count("records_read_back", int64(len(want)))
	c.Out.Sample(map[string]interface{}{"case": id, "history": h, "page": page, "codec": CodecNames[codec], "row_groups": len(d.RowGroups),
		"batches": batchSizes(m), "pending_at_close": len(m.pending), "file_bytes": len(file)})
}

func batchSizes(m *histModel) []int {
	var out []int
	for _, b := range m.batches {
		out = append(out, len(b))
	}
	return out
}

func runC06(c *Ctx) {
	maxLen := 8
	pages := []int{1, 2, 3, 4}
	longN := 40
	if c.Thorough {
		maxLen = 12
		longN = 400
	}
	for _, sh := range c.SelShapes() {
		pool := recordPool(sh.Schema(), 256)
		for _, codec := range []int{0, 1, 2} {
			for _, page := range pages {
				// all histories up to maxLen
				for l := 0; l <= maxLen; l++ {
					for bits := 0; bits < 1<<uint(l); bits++ {
						var sb strings.Builder
						for i := 0; i < l; i++ {
							if bits>>uint(i)&1 == 1 {
								sb.WriteByte('W')
							} else {
								sb.WriteByte('A')
							}
						}
						h := sb.String()
						id := fmt.Sprintf("%s/%s/page=%d/h=%s", sh.Name, CodecNames[codec], page, h)
						if !c.Take(id) {
							continue
						}
						c.Out.Count("exhaustive_histories", 1)
						checkHistory(c, sh, id, h, page, codec, pool)
					}
				}
			}
			// long seeded histories: batches up to 3*page+1
			for k := 0; k < longN; k++ {
				label := fmt.Sprintf("%s/%s/long/%d", sh.Name, CodecNames[codec], k)
				rng := Rng(c.Seed, label)
				page := 1 + rng.Intn(9)
				var sb strings.Builder
				adds := 0
				for adds < 200 && sb.Len() < 240 {
					switch rng.Intn(6) {
					case 0:
						sb.WriteByte('W') // possibly empty
					case 1:
						sb.WriteString("WW")
					default:
						n := []int{1, page - 1, page, page + 1, 2 * page, 2*page + 1, 3 * page, 3*page + 1, 1 + rng.Intn(3*page+1)}[rng.Intn(9)]
						if n < 1 {
							n = 1
						}
						if adds+n > 250 {
							n = 1
						}
						sb.WriteString(strings.Repeat("A", n))
						adds += n
						if rng.Intn(5) > 0 {
							sb.WriteByte('W')
						}
					}
				}
				h := sb.String()
				id := fmt.Sprintf("%s/page=%d/h=%s", label, page, h)
				if !c.Take(id) {
					continue
				}
				c.Out.Count("long_histories", 1)
				checkHistory(c, sh, id, h, page, codec, pool)
			}
		}
	}
	c.Out.Max("max_exhaustive_history_length", int64(maxLen))
	runC06Big(c)
}

// runC06Big: histories whose batches and pages hold more than 8192 records
// (level runs whose headers need three bytes, pages of tens of KiB), with
// records of one uniform structure (one long run per level stream) and with
// the mixed pool.
func runC06Big(c *Ctx) {
	type big struct {
		name string
		page int
		h    []int // > 0: that many Adds, 0: Write
	}
	hs := []big{
		{"5,W,W,8192,W,5", 10000, []int{5, 0, 0, 8192, 0, 5}},
		{"8193,W,W,2,W", 8192, []int{8193, 0, 0, 2, 0}},
		{"8191,W,8192,W", 8192, []int{8191, 0, 8192, 0}},
		{"16385,W", 8192, []int{16385, 0}},
	}
	for _, sh := range c.SelShapes() {
		s := sh.Schema()
		for _, codec := range []int{0, 1, 2} {
			for bi, b := range hs {
				for _, kind := range []string{"uniform", "mixed"} {
					if codec == 2 && (kind != "mixed" || bi > 1) {
						// gzip: the two mixed histories only (page bodies far beyond one inflate window)
						continue
					}
					id := fmt.Sprintf("%s/%s/big/%s/page=%d/h=%s", sh.Name, CodecNames[codec], kind, b.page, b.name)
					if !c.Take(id) {
						continue
					}
					var sb strings.Builder
					adds := 0
					for _, n := range b.h {
						if n == 0 {
							sb.WriteByte('W')
						} else {
							sb.WriteString(strings.Repeat("A", n))
							adds += n
						}
					}
					var pool []*dremel.Tree
					if kind == "uniform" {
						pool = GenRecords(s, GenUniform, adds, Rng(c.Seed, "c06big/"+id), false)
					} else {
						base := recordPool(s, 256)
						for i := 0; i < adds; i++ {
							pool = append(pool, base[i%len(base)])
						}
					}
					c.Out.Count("big_histories", 1)
					checkHistory(c, sh, id, sb.String(), b.page, codec, pool)
				}
			}
		}
	}
}

// shortH abbreviates long histories: AAAAAAAAAAAA -> A×12.
func shortH(h string) string {
	if len(h) <= 300 {
		return h
	}
	var sb strings.Builder
	for i := 0; i < len(h); {
		j := i
		for j < len(h) && h[j] == h[i] {
			j++
		}
		if j-i > 3 {
			fmt.Fprintf(&sb, "%c×%d ", h[i], j-i)
		} else {
			sb.WriteString(h[i:j] + " ")
		}
		i = j
	}
	return sb.String()
}
