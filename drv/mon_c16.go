package drv

import (
	"fmt"
	"reflect"
	"strconv"
	"strings"

	"github.com/parsyl/parquet"
	"github.com/parsyl/parquet/verifkit/ref/pqfile"
	"github.com/parsyl/parquet/verifkit/ref/thriftc"
)

func init() { RegisterProp("C16", runC16) }

// thriftTree converts a value of the repository's generated thrift structs
// (sch.FileMetaData, sch.PageHeader, …) into the reference's generic tree by
// reflection over the `thrift:"name,id[,required]"` tags.
func thriftTree(v reflect.Value) thriftc.Value {
	for v.Kind() == reflect.Ptr {
		v = v.Elem()
	}
	switch v.Kind() {
	case reflect.Struct:
		out := thriftc.Value{Kind: thriftc.KStruct}
		t := v.Type()
		for i := 0; i < t.NumField(); i++ {
			tag := t.Field(i).Tag.Get("thrift")
			if tag == "" {
				continue
			}
			parts := strings.Split(tag, ",")
			if len(parts) < 2 {
				continue
			}
			id, err := strconv.Atoi(parts[1])
			if err != nil {
				continue
			}
			required := len(parts) > 2 && parts[2] == "required"
			fv := v.Field(i)
			if !required {
				switch fv.Kind() {
				case reflect.Ptr, reflect.Slice, reflect.Map:
					if fv.IsNil() {
						continue
					}
				}
			}
			if fv.Kind() == reflect.Ptr && fv.IsNil() {
				continue
			}
			out.Fields = append(out.Fields, thriftc.Field{ID: int16(id), V: thriftTree(fv)})
		}
		return out
	case reflect.Slice:
		if v.Type().Elem().Kind() == reflect.Uint8 {
			return thriftc.Value{Kind: thriftc.KBinary, B: v.Bytes()}
		}
		out := thriftc.Value{Kind: thriftc.KList}
		for i := 0; i < v.Len(); i++ {
			out.L = append(out.L, thriftTree(v.Index(i)))
		}
		return out
	case reflect.String:
		return thriftc.Value{Kind: thriftc.KBinary, B: []byte(v.String())}
	case reflect.Bool:
		return thriftc.Value{Kind: thriftc.KTrue, Bool: v.Bool()}
	case reflect.Int8, reflect.Int16, reflect.Int32, reflect.Int64, reflect.Int:
		return thriftc.Value{Kind: thriftc.KI64, I: v.Int()}
	case reflect.Float64:
		return thriftc.Value{Kind: thriftc.KDouble, F: v.Float()}
	}
	return thriftc.Value{}
}

// knownIDs restricts a reference tree to the field ids the repository's thrift
// schema knows for the struct type t (a foreign file may carry newer optional
// fields that the library legitimately drops).
func restrict(v thriftc.Value, t reflect.Type) thriftc.Value {
	for t.Kind() == reflect.Ptr {
		t = t.Elem()
	}
	switch v.Kind {
	case thriftc.KStruct:
		if t.Kind() != reflect.Struct {
			return v
		}
		ids := map[int16]reflect.Type{}
		for i := 0; i < t.NumField(); i++ {
			parts := strings.Split(t.Field(i).Tag.Get("thrift"), ",")
			if len(parts) >= 2 {
				if id, err := strconv.Atoi(parts[1]); err == nil {
					ids[int16(id)] = t.Field(i).Type
				}
			}
		}
		out := thriftc.Value{Kind: thriftc.KStruct}
		for _, f := range v.Fields {
			ft, ok := ids[f.ID]
			if !ok {
				continue
			}
			out.Fields = append(out.Fields, thriftc.Field{ID: f.ID, V: restrict(f.V, ft)})
		}
		return out
	case thriftc.KList, thriftc.KSet:
		if t.Kind() != reflect.Slice {
			return v
		}
		out := thriftc.Value{Kind: thriftc.KList}
		for _, e := range v.L {
			out.L = append(out.L, restrict(e, t.Elem()))
		}
		return out
	}
	return v
}

// CheckIntrospection compares the library's introspection calls on file with
// the reference's independent walk. Returns kind, detail of the first
// disagreement.
func CheckIntrospection(c *Ctx, file []byte) (string, string) {
	pf, err := pqfile.Parse(file)
	if err != nil {
		return "", "" // not a valid file: outside the statement
	}
	meta, err := parquet.ReadMetaData(NewSource(file))
	if err != nil {
		return "readmetadata_error", fmt.Sprintf("ReadMetaData failed on a valid file: %v", err)
	}
	got := thriftc.Canon(thriftTree(reflect.ValueOf(meta)))
	want := thriftc.Canon(restrict(pf.MetaRaw, reflect.TypeOf(meta)))
	c.Out.Count("footers_compared", 1)
	if got != want {
		return "footer_differs", fmt.Sprintf("ReadMetaData returns a footer that differs from the independent decode:\n library:   %s\n reference: %s", clip(firstDiff(got, want)), clip(firstDiff(want, got)))
	}
	// independent walk: one header per page, in file order
	type refHdr struct {
		canon string
		nv    int32
	}
	var all []refHdr
	perChunk := [][]refHdr{}
	var chunkOff []int64
	var chunkNV []int64
	maxPages := 0
	for _, rg := range pf.RowGroups {
		for _, ch := range rg.Columns {
			ch := ch
			pages, err := pqfile.WalkChunk(file, ChunkStart(&ch), ch.TotalComp)
			if err != nil {
				return "", "" // invalid file
			}
			var hs []refHdr
			for _, p := range pages {
				// data pages (v1 and v2) from data_page_offset on; a dictionary page precedes it
				if int64(p.Offset) < ch.DataPageOffset || (p.Type != pqfile.PData && p.Type != pqfile.PDataV2) {
					continue
				}
				h := refHdr{canon: thriftc.Canon(restrict(p.Raw, reflect.TypeOf(parquet.PageHeaders).Out(0).Elem())), nv: p.NumValues}
				hs = append(hs, h)
				all = append(all, h)
			}
			if len(hs) > maxPages {
				maxPages = len(hs)
			}
			perChunk = append(perChunk, hs)
			chunkOff = append(chunkOff, ch.DataPageOffset)
			chunkNV = append(chunkNV, ch.NumValues)
		}
	}
	c.Out.Max("max_pages_in_chunk", int64(maxPages))
	if maxPages >= 3 && len(pf.RowGroups) >= 2 {
		c.Out.Count("files_with_3_pages_and_2_row_groups", 1)
	}
	hdrs, err := parquet.PageHeaders(meta, NewSource(file))
	if err != nil {
		return "pageheaders_error", fmt.Sprintf("PageHeaders failed on a valid file: %v", err)
	}
	c.Out.Count("headers_compared", int64(len(all)))
	if len(hdrs) != len(all) {
		return "pageheaders_count", fmt.Sprintf("PageHeaders returned %d headers, the file has %d data pages", len(hdrs), len(all))
	}
	for i := range hdrs {
		g := thriftc.Canon(thriftTree(reflect.ValueOf(hdrs[i])))
		if g != all[i].canon {
			return "pageheader_differs", fmt.Sprintf("PageHeaders()[%d] differs from the header at that position:\n library:   %s\n reference: %s", i, clip(g), clip(all[i].canon))
		}
	}
	for ci := range perChunk {
		hs, err := parquet.PageHeadersAtOffset(NewSource(file), chunkOff[ci], chunkNV[ci])
		if err != nil {
			return "atoffset_error", fmt.Sprintf("PageHeadersAtOffset(%d, %d) failed: %v", chunkOff[ci], chunkNV[ci], err)
		}
		c.Out.Count("atoffset_calls", 1)
		if len(hs) != len(perChunk[ci]) {
			return "atoffset_count", fmt.Sprintf("PageHeadersAtOffset(off=%d, n=%d) returned %d headers, the chunk has %d pages", chunkOff[ci], chunkNV[ci], len(hs), len(perChunk[ci]))
		}
		for i := range hs {
			if g := thriftc.Canon(thriftTree(reflect.ValueOf(hs[i]))); g != perChunk[ci][i].canon {
				return "atoffset_differs", fmt.Sprintf("PageHeadersAtOffset(off=%d)[%d] differs:\n library:   %s\n reference: %s", chunkOff[ci], i, clip(g), clip(perChunk[ci][i].canon))
			}
		}
		one, err := parquet.PageHeadersAtOffset(NewSource(file), chunkOff[ci], 0)
		if err != nil {
			return "atoffset_error", fmt.Sprintf("PageHeadersAtOffset(%d, 0) failed: %v", chunkOff[ci], err)
		}
		if len(one) != 1 {
			return "atoffset_n0", fmt.Sprintf("PageHeadersAtOffset(off=%d, n=0) returned %d headers, expected exactly one", chunkOff[ci], len(one))
		}
		if g := thriftc.Canon(thriftTree(reflect.ValueOf(one[0]))); g != perChunk[ci][0].canon {
			return "atoffset_differs", fmt.Sprintf("PageHeadersAtOffset(off=%d, n=0)[0] differs from the chunk's first header", chunkOff[ci])
		}
	}
	return "", ""
}

func firstDiff(a, b string) string {
	i := 0
	for i < len(a) && i < len(b) && a[i] == b[i] {
		i++
	}
	s := i - 60
	if s < 0 {
		s = 0
	}
	e := i + 200
	if e > len(a) {
		e = len(a)
	}
	return fmt.Sprintf("…%s (first difference at byte %d)", a[s:e], i)
}

func runC16(c *Ctx) {
	scale := DefaultScale(c.Thorough)
	scale.Singles = 4
	scale.Compositions = 0
	scale.Huge = 0
	for _, sh := range c.SelShapes() {
		RTWorkload(c, sh, scale, func(cs *RTCase) {
			c.Out.Count("cases", 1)
			file, ok := WriteCase(c, cs, false)
			if !ok {
				return
			}
			c.Out.Count("files_library_written", 1)
			kind, detail := CheckIntrospection(c, file)
			pf, _ := pqfile.Parse(file)
			layout := ""
			nt := false
			if pf != nil {
				layout = fmt.Sprintf("%s|rg=%d|page=%d|part=%v|codec=%d", sh.Name, len(pf.RowGroups), cs.Page, cs.Partition, cs.Codec)
				nt = len(pf.RowGroups) >= 2 || cs.Page < maxPart(cs.Partition)
			}
			c.Out.Distinct(layout, nt)
			if kind != "" {
				c.Out.Violate(Violation{Prop: "C16", Key: "origin=library;kind=" + kind, Case: cs.ID, Shape: sh.Name, Detail: detail})
			}
			c.Out.Sample(map[string]interface{}{"case": cs.ID, "origin": "library writer", "records": len(cs.Recs), "partition": clipInts(cs.Partition), "page": cs.Page, "codec": CodecNames[cs.Codec], "file_bytes": len(file)})
		})
	}
	// files without any row: Close only, records added but never written, a Write with nothing pending
	for _, sh := range c.SelShapes() {
		pool := recordPool(sh.Schema(), 4)
		for _, h := range []string{"", "AA", "W", "WAW"[:1] + "W"} {
			for _, codec := range []int{0, 1} {
				id := fmt.Sprintf("%s/%s/zero-rows/h=%s", sh.Name, CodecNames[codec], h)
				if !c.Take(id) {
					continue
				}
				sink := NewSink()
				out := RunHistory(sh, sink, 3, codec, opsOf(h, pool), false)
				if out.Panic != nil || !out.Finished {
					continue // a C06 matter
				}
				c.Out.Count("cases", 1)
				c.Out.Count("files_without_rows", 1)
				c.Out.Distinct(id, true)
				kind, detail := func() (k, d string) {
					defer func() {
						if r := recover(); r != nil {
							k, d = "panic", fmt.Sprintf("introspection panicked: %v", r)
						}
					}()
					return CheckIntrospection(c, sink.Buf)
				}()
				if kind != "" {
					c.Out.Violate(Violation{Prop: "C16", Key: "origin=library;rows=0;kind=" + kind, Case: id, Shape: sh.Name,
						Detail: fmt.Sprintf("valid file without rows (history %q then Close, %d bytes): %s", h, len(sink.Buf), detail)})
				}
			}
		}
	}
	runC16Foreign(c)
	// valid files that use features the READER does not implement: inspecting such files
	// is what the introspection calls (parquetgen -metadata / -pageheaders) are for
	for _, sh := range c.SelShapes() {
		if sh.Name != "p1" && sh.Name != "p2" && !c.Thorough {
			continue
		}
		forEachCarrier(c, sh, "c16x/", func(f string) bool {
			// an index page between data pages is listed by the library along with them; whether
			// "one header per data page" covers it is not what C16 is about: not judged
			return !strings.HasPrefix(f, "index_page")
		}, func(cc *carrier) {
			c.Out.Count("cases", 1)
			c.Out.Count("files_foreign_unsupported_feature", 1)
			c.Out.Count("xfeature_"+cc.Feature, 1)
			c.Out.Distinct(cc.ID, true)
			kind, detail := func() (k, d string) {
				defer func() {
					if r := recover(); r != nil {
						k, d = "panic", fmt.Sprintf("introspection panicked: %v\n%s", r, clip(stack()))
					}
				}()
				return CheckIntrospection(c, cc.File)
			}()
			if kind != "" {
				c.Out.Violate(Violation{Prop: "C16", Key: "origin=foreign;feature=" + cc.Feature + ";kind=" + kind, Case: cc.ID, Shape: sh.Name,
					Detail: fmt.Sprintf("valid file whose column %s uses %s (row group %d, page %d): %s", cc.Col, cc.Feature, cc.RG, cc.PI, detail)})
			}
		})
	}
}
