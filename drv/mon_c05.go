package drv

import (
	"fmt"
	"strings"

	"github.com/parsyl/parquet/verifkit/ref/dremel"
	"github.com/parsyl/parquet/verifkit/ref/pqfile"
)

func init() { RegisterProp("C05", runC05) }

// checkAllMonitors runs one write configuration through the C02, C03 and C01
// monitors and returns the kind and description of the first failure.
func checkAllMonitors(cs *RTCase) (kind, detail string) {
	sh := cs.Shape
	sc := sh.Schema()
	sink := NewSink()
	out := RunHistory(sh, sink, cs.Page, cs.Codec, HistoryOf(cs.Recs, cs.Partition), true)
	if out.Panic != nil {
		return "panic", fmt.Sprintf("writer panicked during %s: %v\n%s", out.PanicIn, out.Panic, clip(out.Stack))
	}
	if err, where := out.FirstErr(); err != nil {
		return "write_error", fmt.Sprintf("writer error at %s: %v", where, err)
	}
	file := sink.Buf
	d, err := pqfile.Validate(file, pqfile.Expect{Schema: &sc.Root.Node, Codec: int32(cs.Codec), MaxPageRecs: cs.Page, Records: int64(len(cs.Recs))})
	if err != nil {
		return "invalid", "file is not valid Parquet: " + err.Error()
	}
	if len(d.Failures) > 0 {
		return "invalid", "file is not valid Parquet: " + d.Failures[0].String()
	}
	if len(d.RowGroups) != len(cs.Partition) {
		return "invalid", fmt.Sprintf("%d row groups for %d written batches", len(d.RowGroups), len(cs.Partition))
	}
	// striping
	for ci, leaf := range sc.Leaves {
		var want []dremel.Triple
		for _, r := range cs.Recs {
			want = append(want, sc.Shred(r)[ci]...)
		}
		got, err := ColumnTriples(d, ci)
		if err != nil {
			return "invalid", err.Error()
		}
		name := strings.Join(leaf.Path, ".")
		for i := 0; i < len(got) && i < len(want); i++ {
			if got[i] != want[i] {
				return "striping", fmt.Sprintf("column %s entry %d: file has %v, canonical striping is %v", name, i, got[i], want[i])
			}
		}
		if len(got) != len(want) {
			return "striping", fmt.Sprintf("column %s: file has %d entries, canonical striping has %d", name, len(got), len(want))
		}
	}
	res := ReadAll(sh, NewSource(file), len(cs.Recs)+5)
	switch {
	case res.Panic != nil:
		return "panic", fmt.Sprintf("reader panicked: %v\n%s", res.Panic, clip(res.Stack))
	case res.CtorErr != nil:
		return "mismatch", fmt.Sprintf("NewParquetReader failed on the writer's own file: %v", res.CtorErr)
	case res.Err != nil:
		return "mismatch", fmt.Sprintf("Error() = %v after %d of %d rows", res.Err, res.NextTrue, len(cs.Recs))
	case res.Rows != int64(len(cs.Recs)):
		return "mismatch", fmt.Sprintf("Rows() = %d, %d records were written", res.Rows, len(cs.Recs))
	}
	if diff := CompareRecs(sc, cs.Recs, res.Recs); diff != "" {
		return "mismatch", diff
	}
	if res.Drift != "" {
		return "mismatch", res.Drift
	}
	return "", ""
}

// ShapeCases enumerates the deterministic (seed-independent) inputs of one
// generated program: every structurally distinct record alone, all of them in
// one file at page sizes 1, 2 and 1000, and in three batches.
func ShapeCases(sh *Shape, cap int) []*RTCase {
	sc := sh.Schema()
	var counter uint64
	recs, _ := EnumStructures(sc, lensSmall, cap, &counter)
	var out []*RTCase
	for i, r := range recs {
		out = append(out, &RTCase{ID: fmt.Sprintf("%s/single%d", sh.Name, i), Shape: sh, Gen: GenStruct, Recs: []*dremel.Tree{r}, Partition: []int{1}, Page: 1000, Codec: 0})
	}
	for _, p := range []int{1, 2, 1000} {
		out = append(out, &RTCase{ID: fmt.Sprintf("%s/all/page=%d", sh.Name, p), Shape: sh, Gen: GenStruct, Recs: recs, Partition: []int{len(recs)}, Page: p, Codec: 0})
	}
	if len(recs) >= 3 {
		a := len(recs) / 3
		out = append(out, &RTCase{ID: fmt.Sprintf("%s/all/3batches", sh.Name), Shape: sh, Gen: GenStruct, Recs: recs, Partition: []int{a, a, len(recs) - 2*a}, Page: 2, Codec: 1})
	}
	return out
}

func runC05(c *Ctx) {
	nrandom := 6
	if c.Thorough {
		nrandom = 20
	}
	for _, sh := range c.SelShapes() {
		if !c.Take(sh.Name) {
			continue
		}
		c.Out.Count("programs_run", 1)
		sc := sh.Schema()
		nontrivial := false
		for _, l := range sc.Leaves {
			if l.MaxDef > 0 || len(l.Path) > 1 {
				nontrivial = true
			}
		}
		c.Out.Distinct(sh.Sig, nontrivial)
		failed := false
		report := func(cs *RTCase, kind, detail string) {
			failed = true
			c.Out.Count("kind_"+kind, 1)
			first := ""
			if len(cs.Recs) > 0 {
				first = clip(sc.Render(cs.Recs[0]))
			}
			c.Out.Violate(Violation{Prop: "C05", Key: "shape=" + sh.Sig + ";kind=" + kind, Case: sh.Name, Shape: sh.Name,
				Detail: fmt.Sprintf("struct shape %s: case %s (%d records, partition %v, page size %d, %s): %s", sh.Sig, cs.ID, len(cs.Recs), clipInts(cs.Partition), cs.Page, CodecNames[cs.Codec], detail),
				Extra:  map[string]interface{}{"first_record": first, "case": cs.ID}})
		}
		cases := ShapeCases(sh, 150)
		for _, cs := range cases {
			c.Out.Count("cases", 1)
			c.Out.Count("records", int64(len(cs.Recs)))
			if kind, detail := checkAllMonitors(cs); kind != "" {
				report(cs, kind, detail)
				break
			}
		}
		if failed {
			continue
		}
		// seeded random multi-row-group files; only reached by programs that pass everything above
		for k := 0; k < nrandom; k++ {
			id := fmt.Sprintf("%s/random%d", sh.Name, k)
			rng := Rng(c.Seed, "c05/"+sh.Sig+"/"+fmt.Sprint(k))
			n := 1 + rng.Intn(40)
			var recs []*dremel.Tree
			for i := 0; i < n; i++ {
				vs := valueSource(randomVals{rng})
				if k%2 == 1 {
					vs = extremeVals{r: rng}
				}
				recs = append(recs, genTree(sc, rngChooser{rng}, vs, lensSmall))
			}
			cs := &RTCase{ID: id, Shape: sh, Gen: GenRandom, Recs: recs, Partition: RandomPartition(n, rng), Page: []int{1, 2, 3, 5, 1000}[rng.Intn(5)], Codec: rng.Intn(3)}
			c.Out.Count("cases", 1)
			c.Out.Count("random_cases", 1)
			if kind, detail := checkAllMonitors(cs); kind != "" {
				report(cs, kind, detail)
				break
			}
		}
		if !failed {
			c.Out.Count("programs_clean", 1)
			if nontrivial {
				c.Out.Count("programs_clean_nontrivial", 1)
			}
		}
	}
}
