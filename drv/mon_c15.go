package drv

import (
	"fmt"
	"os"
	"path/filepath"

	"github.com/parsyl/parquet/verifkit/ref/dremel"
	"github.com/parsyl/parquet/verifkit/ref/pqfile"
)

func init() { RegisterProp("C15", runC15) }

type c15file struct {
	Name  string
	Recs  []*dremel.Tree
	Part  []int
	Page  int
	Codec int
}

// c15Files is the deterministic list of files written for a shape (the same
// function regenerates the expected records in the read stage).
func c15Files(c *Ctx, sh *Shape) []c15file {
	sc := sh.Schema()
	var counter uint64
	st, _ := EnumStructures(sc, lensSmall, 64, &counter)
	out := []c15file{{Name: "f0", Recs: st, Part: []int{len(st)}, Page: 1000, Codec: 1}}
	rng := Rng(c.Seed, "c15/"+sh.Sig)
	ex := GenRecords(sc, GenExtremeS, 1+rng.Intn(20), rng, false)
	out = append(out, c15file{Name: "f1", Recs: ex, Part: RandomPartition(len(ex), rng), Page: 3, Codec: 0})
	rd := GenRecords(sc, GenRandom, 5+rng.Intn(40), rng, false)
	out = append(out, c15file{Name: "f2", Recs: rd, Part: RandomPartition(len(rd), rng), Page: 2, Codec: 1})
	// several pages per chunk with a page size that is a multiple of 8 (bit-packed bools fill
	// whole bytes), one row group
	r8 := GenRecords(sc, GenRandom, 26+rng.Intn(30), rng, false)
	out = append(out, c15file{Name: "f4", Recs: r8, Part: []int{len(r8)}, Page: 8, Codec: []int{0, 1, 2}[rng.Intn(3)]})
	// one shape in eight: a file of many one-record row groups, whose footer is larger than
	// 64 KiB (one shape in 64: larger than 1 MiB); the struct is then regenerated from THIS file
	var n int
	if _, err := fmt.Sscanf(sh.Name, "c%d", &n); err == nil && n%8 == 3 {
		want := 72 << 10
		if n%64 == 3 {
			want = 1100 << 10
		}
		groups := want/(34*len(sc.Leaves)) + 1
		recs := make([]*dremel.Tree, groups)
		part := make([]int, groups)
		for i := range recs {
			recs[i] = st[i%len(st)]
			part[i] = 1
		}
		out = append(out, c15file{Name: "f3", Recs: recs, Part: part, Page: 1000, Codec: 0})
	}
	return out
}

func runC15(c *Ctx) {
	dir := c.Arg("dir", "")
	mode := c.Arg("mode", "")
	if dir == "" {
		c.Out.Inconclusive("C15 driver needs dir=")
		return
	}
	switch mode {
	case "write":
		for _, sh := range c.SelShapes() {
			if sh.Meta["orig"] != "" || !c.Take(sh.Name) {
				continue
			}
			os.MkdirAll(filepath.Join(dir, sh.Name), 0o755)
			for _, f := range c15Files(c, sh) {
				cs := &RTCase{ID: sh.Name + "/" + f.Name, Shape: sh, Recs: f.Recs, Partition: f.Part, Page: f.Page, Codec: f.Codec}
				b, ok := WriteCase(c, cs, false)
				if !ok {
					continue
				}
				if err := os.WriteFile(filepath.Join(dir, sh.Name, f.Name+".parquet"), b, 0o644); err != nil {
					c.Out.Inconclusive(err.Error())
				}
				c.Out.Count("files_written", 1)
			}
		}
	case "read":
		for _, rg := range c.SelShapes() {
			on := rg.Meta["orig"]
			if on == "" || !c.Take(on) {
				continue
			}
			orig := Lookup(on)
			if orig == nil {
				c.Out.Inconclusive("original package " + on + " is not linked")
				continue
			}
			c.Out.Count("cases", 1)
			c.Out.Count("programs_run", 1)
			osc := orig.Schema()
			nontrivial := false
			for _, l := range osc.Leaves {
				if len(l.Path) > 1 {
					nontrivial = true
				}
			}
			c.Out.Distinct(orig.Sig, nontrivial)
			bad := func(kind, detail string) {
				c.Out.Violate(Violation{Prop: "C15", Key: "shape=" + orig.Sig + ";kind=" + kind, Case: on, Shape: on,
					Detail: fmt.Sprintf("struct shape %s regenerated from its own file: %s", orig.Sig, detail)})
			}
			rsc, err := dremel.SchemaOf(rg.Type)
			if err != nil {
				bad("struct_differs", "the regenerated struct is not a supported struct: "+err.Error())
				continue
			}
			if err := pqfile.CompareSchema(&osc.Root.Node, &rsc.Root.Node); err != nil {
				bad("struct_differs", fmt.Sprintf("regenerated struct differs from the source struct: %v\n source columns:\n%s regenerated columns:\n%s", err, osc.Root.Describe(), rsc.Root.Describe()))
				continue
			}
			c.Out.Count("structs_equal", 1)
			ok := true
			for _, f := range c15Files(c, orig) {
				b, err := os.ReadFile(filepath.Join(dir, on, f.Name+".parquet"))
				if err != nil {
					c.Out.Inconclusive("stage 1 did not leave " + on + "/" + f.Name)
					ok = false
					break
				}
				res := ReadAll(rg, NewSource(b), len(f.Recs)+5)
				c.Out.Count("files_read", 1)
				switch {
				case res.Panic != nil:
					bad("read_panic", fmt.Sprintf("file %s: %v\n%s", f.Name, res.Panic, clip(res.Stack)))
					ok = false
				case res.Reported():
					bad("read_error", fmt.Sprintf("file %s: ctor=%v Error()=%v", f.Name, res.CtorErr, res.Err))
					ok = false
				default:
					if diff := CompareRecs(rsc, f.Recs, res.Recs); diff != "" {
						bad("read_mismatch", fmt.Sprintf("file %s: %s", f.Name, diff))
						ok = false
					}
				}
				if !ok {
					break
				}
				c.Out.Count("records_compared", int64(len(f.Recs)))
			}
			if ok {
				c.Out.Count("programs_clean", 1)
				if nontrivial {
					c.Out.Count("programs_clean_nested", 1)
				}
			}
			c.Out.Sample(map[string]interface{}{"shape": orig.Sig, "regenerated_columns": rsc.Root.Describe()})
		}
	default:
		c.Out.Inconclusive("C15 driver needs mode=write|read")
	}
}
