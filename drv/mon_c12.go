package drv

import (
	"bytes"
	"encoding/binary"
	"fmt"
	"math"
	"math/rand"
	"reflect"
	"strings"

	"github.com/parsyl/parquet/verifkit/ref/dremel"
	"github.com/parsyl/parquet/verifkit/ref/pqfile"
)

func init() { RegisterProp("C12", runC12) }

// statsVals draws leaf values from a per-mode pool aimed at accumulator bugs.
type statsVals struct {
	r    *rand.Rand
	mode string
}

var statsModes = []string{"all-negative", "all-equal", "extremes", "unsigned-high", "float-special", "all-nan", "strings-hostile", "positive", "mixed-sign", "descending", "ascending"}

func (e statsVals) Leaf(n *dremel.GNode) pqfile.Val {
	r := e.r
	k := n.Elem.Kind()
	pickU := func(l ...uint64) uint64 { return l[r.Intn(len(l))] }
	switch e.mode {
	case "all-negative":
		switch k {
		case reflect.Int32:
			return pqfile.Val{U: uint64(uint32(int32(-1 - r.Intn(1000))))}
		case reflect.Int64:
			return pqfile.Val{U: uint64(int64(-1 - r.Intn(1000)))}
		case reflect.Float32:
			return pqfile.Val{U: uint64(math.Float32bits(-1 - float32(r.Intn(1000))))}
		case reflect.Float64:
			return pqfile.Val{U: math.Float64bits(-1 - float64(r.Intn(1000)))}
		}
	case "all-equal":
		switch k {
		case reflect.Int32, reflect.Uint32:
			return pqfile.Val{U: 42}
		case reflect.Int64, reflect.Uint64:
			return pqfile.Val{U: 42}
		case reflect.Float32:
			return pqfile.Val{U: uint64(math.Float32bits(-2.5))}
		case reflect.Float64:
			return pqfile.Val{U: math.Float64bits(-2.5)}
		case reflect.String:
			return pqfile.Val{S: "same"}
		}
	case "extremes":
		return extremeVals{r: r}.Leaf(n)
	case "unsigned-high":
		switch k {
		case reflect.Uint32:
			return pqfile.Val{U: pickU(0x80000000, 0xffffffff, 0x80000001, 0xfffffffe, 5, 0x7fffffff)}
		case reflect.Uint64:
			return pqfile.Val{U: pickU(1<<63, math.MaxUint64, 1<<63+1, math.MaxUint64-1, 5, math.MaxInt64)}
		case reflect.Int32:
			return pqfile.Val{U: pickU(0x80000000, 0x7fffffff, 0xffffffff, 0)}
		case reflect.Int64:
			return pqfile.Val{U: pickU(1<<63, math.MaxInt64, math.MaxUint64, 0)}
		}
	case "float-special":
		switch k {
		case reflect.Float32:
			return pqfile.Val{U: pickU(0, 0x80000000, 0x7f800000, 0xff800000, 0x7fc00000, 0x7fa00001, 0x3f800000, 0xbf800000, 1, 0x80000001, 0x7f7fffff, 0xff7fffff)}
		case reflect.Float64:
			return pqfile.Val{U: pickU(0, 1<<63, 0x7ff0000000000000, 0xfff0000000000000, 0x7ff8000000000000, 0x7ff4000000000001, 0x3ff0000000000000, 0xbff0000000000000, 1, 1<<63+1, 0x7fefffffffffffff, 0xffefffffffffffff)}
		}
	case "all-nan":
		switch k {
		case reflect.Float32:
			return pqfile.Val{U: pickU(0x7fc00000, 0xffc00001, 0x7fa00001)}
		case reflect.Float64:
			return pqfile.Val{U: pickU(0x7ff8000000000000, 0xfff8000000000001, 0x7ff4000000000001)}
		}
	case "strings-hostile":
		if k == reflect.String {
			l := []string{"__#NIL#__", "zzz", "", "\xff", "\xff\xff", "a", "__#NIL#__a", "__#NIL#_", "\x00", "prefix-aaaaaaaaaaaaaaaaaaaaaaaaaaaaaaaaaaaaaaaaaaaaaaaa-1", "prefix-aaaaaaaaaaaaaaaaaaaaaaaaaaaaaaaaaaaaaaaaaaaaaaaa-2", "prefix-", "~", "A", "\x7f", "\x80"}
			return pqfile.Val{S: l[r.Intn(len(l))]}
		}
	case "positive":
		switch k {
		case reflect.Int32, reflect.Uint32, reflect.Int64, reflect.Uint64:
			return pqfile.Val{U: uint64(1 + r.Intn(1000))}
		case reflect.Float32:
			return pqfile.Val{U: uint64(math.Float32bits(1 + float32(r.Intn(1000))))}
		case reflect.Float64:
			return pqfile.Val{U: math.Float64bits(1 + float64(r.Intn(1000)))}
		}
	case "mixed-sign", "descending", "ascending":
		// handled by the caller through the counter below
	}
	return randomVals{r}.Leaf(n)
}

// statCmp compares two values of a column in the column type's order; ok is
// false if either is NaN.
func statCmp(leaf *pqfile.Node, a, b pqfile.Val) (int, bool) {
	cmpU := func(x, y uint64) int {
		if x < y {
			return -1
		}
		if x > y {
			return 1
		}
		return 0
	}
	cmpI := func(x, y int64) int {
		if x < y {
			return -1
		}
		if x > y {
			return 1
		}
		return 0
	}
	cmpF := func(x, y float64) (int, bool) {
		if math.IsNaN(x) || math.IsNaN(y) {
			return 0, false
		}
		if x < y {
			return -1, true
		}
		if x > y {
			return 1, true
		}
		return 0, true
	}
	switch leaf.Type {
	case pqfile.TInt32:
		if leaf.Converted != nil && *leaf.Converted == pqfile.CTUint32 {
			return cmpU(uint64(uint32(a.U)), uint64(uint32(b.U))), true
		}
		return cmpI(int64(int32(uint32(a.U))), int64(int32(uint32(b.U)))), true
	case pqfile.TInt64:
		if leaf.Converted != nil && *leaf.Converted == pqfile.CTUint64 {
			return cmpU(a.U, b.U), true
		}
		return cmpI(int64(a.U), int64(b.U)), true
	case pqfile.TFloat:
		return cmpF(float64(math.Float32frombits(uint32(a.U))), float64(math.Float32frombits(uint32(b.U))))
	case pqfile.TDouble:
		return cmpF(math.Float64frombits(a.U), math.Float64frombits(b.U))
	case pqfile.TByteArray:
		return bytes.Compare([]byte(a.S), []byte(b.S)), true
	case pqfile.TBoolean:
		return cmpU(a.U&1, b.U&1), true
	}
	return 0, false
}

func statVal(leaf *pqfile.Node, b []byte) (pqfile.Val, error) {
	switch leaf.Type {
	case pqfile.TInt32, pqfile.TFloat:
		if len(b) != 4 {
			return pqfile.Val{}, fmt.Errorf("statistic is %d bytes, the type needs 4", len(b))
		}
		return pqfile.Val{U: uint64(binary.LittleEndian.Uint32(b))}, nil
	case pqfile.TInt64, pqfile.TDouble:
		if len(b) != 8 {
			return pqfile.Val{}, fmt.Errorf("statistic is %d bytes, the type needs 8", len(b))
		}
		return pqfile.Val{U: binary.LittleEndian.Uint64(b)}, nil
	case pqfile.TByteArray:
		return pqfile.Val{S: string(b)}, nil
	case pqfile.TBoolean:
		if len(b) != 1 {
			return pqfile.Val{}, fmt.Errorf("statistic is %d bytes, boolean needs 1", len(b))
		}
		return pqfile.Val{U: uint64(b[0] & 1)}, nil
	}
	return pqfile.Val{}, fmt.Errorf("type %d", leaf.Type)
}

var typeNames = map[int32]string{pqfile.TBoolean: "bool", pqfile.TInt32: "int32", pqfile.TInt64: "int64", pqfile.TFloat: "float", pqfile.TDouble: "double", pqfile.TByteArray: "bytes"}

func colClass(leaf *pqfile.Node) string {
	rep := "required"
	if leaf.MaxRep > 0 {
		rep = "repeated"
	} else if leaf.MaxDef > 0 {
		rep = "optional"
	}
	t := typeNames[leaf.Type]
	if leaf.Converted != nil && (*leaf.Converted == pqfile.CTUint32 || *leaf.Converted == pqfile.CTUint64) {
		t = "u" + t
	}
	return t + "_" + rep
}

// CheckPageStats judges the statistics of one decoded page. It returns a
// description of the first unsoundness, or "".
func CheckPageStats(c *Ctx, leaf *pqfile.Node, p *pqfile.Page, pd *pqfile.PageData) (kind, detail string) {
	cls := colClass(leaf)
	c.Out.Count("pages_checked", 1)
	c.Out.Count("pages_"+cls, 1)
	st := p.Stats
	nulls := int64(len(pd.Defs)) - int64(pd.NonNull)
	if leaf.MaxDef == 0 {
		nulls = 0
	}
	if pd.NonNull == 0 {
		c.Out.Count("pages_all_null", 1)
	}
	hasNaN := false
	if leaf.Type == pqfile.TFloat || leaf.Type == pqfile.TDouble {
		for _, v := range pd.Vals {
			if _, ok := statCmp(leaf, v, v); !ok {
				hasNaN = true
			}
		}
		if hasNaN {
			c.Out.Count("pages_with_nan", 1)
		}
	}
	if leaf.Type == pqfile.TByteArray {
		for _, v := range pd.Vals {
			if strings.HasPrefix(v.S, "__#NIL#__") {
				c.Out.Count("pages_with_sentinel_string", 1)
				break
			}
		}
	}
	if st == nil {
		c.Out.Count("pages_without_statistics", 1)
		return "", ""
	}
	if st.NullCount != nil {
		c.Out.Count("null_count_checked", 1)
		if nulls > 0 {
			c.Out.Count("null_count_checked_nonzero", 1)
		}
		if *st.NullCount != nulls {
			return "null_count", fmt.Sprintf("null_count %d, the page has %d entries without a value (%d entries, %d values)", *st.NullCount, nulls, len(pd.Defs), pd.NonNull)
		}
	} else if leaf.MaxDef > 0 {
		c.Out.Count("null_count_absent_on_nullable", 1)
	}
	type bound struct {
		name  string
		b     []byte
		has   bool
		isMin bool
	}
	bounds := []bound{{"min", st.Min, st.HasMin, true}, {"max", st.Max, st.HasMax, false}, {"min_value", st.MinValue, st.HasMinV, true}, {"max_value", st.MaxValue, st.HasMaxV, false}}
	any := false
	for _, b := range bounds {
		if !b.has {
			continue
		}
		any = true
		if pd.NonNull == 0 {
			return "bound_on_empty", fmt.Sprintf("%s is present (%x) on a page with no non-null value", b.name, b.b)
		}
		bv, err := statVal(leaf, b.b)
		if err != nil {
			return "bound_malformed", fmt.Sprintf("%s: %v", b.name, err)
		}
		if _, ok := statCmp(leaf, bv, bv); !ok {
			// a NaN bound orders nothing
			nonNaN := 0
			for _, v := range pd.Vals {
				if _, ok := statCmp(leaf, v, v); ok {
					nonNaN++
				}
			}
			if nonNaN > 0 {
				return "bound_nan", fmt.Sprintf("%s is NaN (%x) although the page has %d non-NaN values", b.name, b.b, nonNaN)
			}
			continue
		}
		for i, v := range pd.Vals {
			cmp, ok := statCmp(leaf, v, bv)
			if !ok {
				continue
			}
			if (b.isMin && cmp < 0) || (!b.isMin && cmp > 0) {
				return "bound_unsound", fmt.Sprintf("%s = %s but value %d of the page is %s (column order of %s)", b.name, showVal(leaf, bv), i, showVal(leaf, v), cls)
			}
		}
	}
	if any {
		c.Out.Count("minmax_"+cls, 1)
		c.Out.Count("pages_with_minmax", 1)
	}
	return "", ""
}

func showVal(leaf *pqfile.Node, v pqfile.Val) string {
	switch leaf.Type {
	case pqfile.TByteArray:
		return fmt.Sprintf("%q", v.S)
	case pqfile.TFloat:
		return fmt.Sprintf("%v(0x%08x)", math.Float32frombits(uint32(v.U)), uint32(v.U))
	case pqfile.TDouble:
		return fmt.Sprintf("%v(0x%016x)", math.Float64frombits(v.U), v.U)
	case pqfile.TInt32:
		if leaf.Converted != nil {
			return fmt.Sprint(uint32(v.U))
		}
		return fmt.Sprint(int32(uint32(v.U)))
	case pqfile.TInt64:
		if leaf.Converted != nil {
			return fmt.Sprint(v.U)
		}
		return fmt.Sprint(int64(v.U))
	}
	return fmt.Sprint(v.U)
}

func runC12(c *Ctx) {
	files := 900
	if c.Thorough {
		files = 30000
	}
	for _, sh := range c.SelShapes() {
		s := sh.Schema()
		for _, codec := range []int{0, 1} {
			for _, mode := range statsModes {
				for k := 0; k < files/len(statsModes)+1; k++ {
					id := fmt.Sprintf("%s/%s/%s/%d", sh.Name, CodecNames[codec], mode, k)
					if !c.Take(id) {
						continue
					}
					rng := Rng(c.Seed, "c12/"+id)
					n := 1 + rng.Intn(14)
					if k%16 == 7 {
						n = 100 + rng.Intn(400) // pages of hundreds of values
					}
					var recs []*dremel.Tree
					ch := chooser(rngChooser{rng})
					if k%5 == 4 {
						ch = &replayChooser{} // all optionals nil, all lists empty: all-null pages
					}
					for i := 0; i < n; i++ {
						recs = append(recs, genTree(s, ch, statsVals{r: rng, mode: mode}, []int{0, 1, 2, 3}))
					}
					part := RandomPartition(n, rng)
					page := []int{1, 2, 3, 5, 1000}[rng.Intn(5)]
					if n >= 100 {
						page = []int{7, 64, 1000}[rng.Intn(3)]
					}
					cs := &RTCase{ID: id, Shape: sh, Recs: recs, Partition: part, Page: page, Codec: codec}
					c.Out.Count("cases", 1)
					file, ok := WriteCase(c, cs, false)
					if !ok {
						continue
					}
					d, err := pqfile.Validate(file, pqfile.Expect{Codec: -1, Records: -1, Lenient: true})
					if err != nil {
						c.Out.Inconclusive("file " + id + " not parseable (a C02 matter): " + err.Error())
						continue
					}
					nontrivial := false
					for gi, rg := range d.RowGroups {
						for ci, chk := range rg.Chunks {
							for pi, pd := range chk.Data {
								if pd == nil {
									c.Out.Inconclusive(fmt.Sprintf("file %s: page does not decode (a C02 matter)", id))
									continue
								}
								if len(chk.Pages) > 1 || len(d.RowGroups) > 1 {
									nontrivial = true
								}
								kind, detail := CheckPageStats(c, chk.Leaf, chk.Pages[pi], pd)
								if kind != "" {
									c.Out.Violate(Violation{Prop: "C12", Key: fmt.Sprintf("col=%s;kind=%s", colClass(chk.Leaf), kind), Case: id, Shape: sh.Name,
										Detail: fmt.Sprintf("%s row group %d column %d (%s) page %d: %s; page values: %s", id, gi, ci, strings.Join(chk.Leaf.Path, "."), pi, detail, showVals(chk.Leaf, pd.Vals))})
								}
							}
						}
					}
					c.Out.Distinct(id, nontrivial)
					c.Out.Sample(map[string]interface{}{"case": id, "mode": mode, "records": n, "page": page, "partition": part})
				}
			}
		}
	}
}

func showVals(leaf *pqfile.Node, vs []pqfile.Val) string {
	var parts []string
	for i, v := range vs {
		if i >= 12 {
			parts = append(parts, "…")
			break
		}
		parts = append(parts, showVal(leaf, v))
	}
	return "[" + strings.Join(parts, " ") + "]"
}
