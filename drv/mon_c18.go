package drv

import (
	"fmt"
	"github.com/parsyl/parquet/verifkit/ref/thriftc"
	"io"
	"strings"

	"github.com/parsyl/parquet/verifkit/ref/dremel"
	"github.com/parsyl/parquet/verifkit/ref/extra"
	"github.com/parsyl/parquet/verifkit/ref/hybrid"
	"github.com/parsyl/parquet/verifkit/ref/pqfile"
)

func init() { RegisterProp("C18", runC18) }

// baseRowGroups lays recs out as row groups with up to three pages per chunk
// (cut at record boundaries), plain v1 pages, one codec.
func baseRowGroups(sc *dremel.Schema, recs []*dremel.Tree, part []int, codec int32) ([]pqfile.WRowGroup, error) {
	var rgs []pqfile.WRowGroup
	ri := 0
	for _, n := range part {
		batch := recs[ri : ri+n]
		ri += n
		rg := pqfile.WRowGroup{NumRows: int64(n)}
		cols := make([][]dremel.Triple, len(sc.Leaves))
		for _, r := range batch {
			sh := sc.Shred(r)
			for i := range sh {
				cols[i] = append(cols[i], sh[i]...)
			}
		}
		for ci, leaf := range sc.Leaves {
			ts := cols[ci]
			var bounds []int
			for i, t := range ts {
				if t.Rep == 0 && i > 0 {
					bounds = append(bounds, i)
				}
			}
			var cuts []int
			if len(bounds) >= 2 {
				cuts = []int{bounds[len(bounds)/3], bounds[2*len(bounds)/3]}
				if cuts[0] == cuts[1] {
					cuts = cuts[:1]
				}
			} else if len(bounds) == 1 {
				cuts = []int{bounds[0]}
			}
			cuts = append(cuts, len(ts))
			wc := pqfile.WChunk{Leaf: &leaf.Node, Codec: codec}
			start := 0
			for _, cut := range cuts {
				pts := ts[start:cut]
				start = cut
				src := &PageSrc{}
				for _, t := range pts {
					src.Reps = append(src.Reps, t.Rep)
					src.Defs = append(src.Defs, t.Def)
					if t.HasVal {
						src.Vals = append(src.Vals, t.V)
					}
				}
				body, err := pqfile.DataPageBody(&leaf.Node, src.Reps, src.Defs, src.Vals, nil, nil)
				if err != nil {
					return nil, err
				}
				wc.Pages = append(wc.Pages, pqfile.WPage{Type: pqfile.PData, NumValues: int32(len(pts)), Body: body, Enc: pqfile.EPlain, DefEnc: pqfile.ERLE, RepEnc: pqfile.ERLE, Aux: src})
			}
			rg.Chunks = append(rg.Chunks, wc)
		}
		rgs = append(rgs, rg)
	}
	return rgs, nil
}

// levelSections encodes the level sections of a v1 page.
func levelSections(leaf *pqfile.Node, src *PageSrc) []byte {
	var out []byte
	if leaf.MaxRep > 0 {
		b, _ := hybrid.Encode(src.Reps, pqfile.LevelWidth(leaf.MaxRep), []hybrid.Seg{{BitPacked: true, N: len(src.Reps)}})
		out = append(out, b...)
	}
	if leaf.MaxDef > 0 {
		b, _ := hybrid.Encode(src.Defs, pqfile.LevelWidth(leaf.MaxDef), []hybrid.Seg{{BitPacked: true, N: len(src.Defs)}})
		out = append(out, b...)
	}
	return out
}

func u64s(l []uint8) []uint64 {
	out := make([]uint64, len(l))
	for i, v := range l {
		out[i] = uint64(v)
	}
	return out
}

func strs(vs []pqfile.Val) []string {
	out := make([]string, len(vs))
	for i, v := range vs {
		out[i] = v.S
	}
	return out
}

// features lists the unsupported features applicable to a leaf.
func featuresFor(leaf *pqfile.Node) []string {
	fs := []string{"index_page", "index_page_without_body", "empty_dictionary_page_then_plain", "data_page_v2", "codec_lzo", "codec_brotli", "codec_lz4", "codec_zstd", "codec_lz4_raw", "codec_unassigned_8", "codec_unassigned_1000", "codec_negative"}
	if leaf.Type != pqfile.TBoolean {
		fs = append(fs, "dictionary_rle", "dictionary_plain", "dictionary_page_then_plain")
	}
	switch leaf.Type {
	case pqfile.TInt32, pqfile.TInt64:
		fs = append(fs, "delta_binary_packed")
	case pqfile.TByteArray:
		fs = append(fs, "delta_length_byte_array", "delta_byte_array")
	case pqfile.TFloat, pqfile.TDouble:
		fs = append(fs, "byte_stream_split")
	case pqfile.TBoolean:
		fs = append(fs, "rle_boolean")
	}
	if leaf.MaxDef > 0 {
		fs = append(fs, "bit_packed_def_levels")
	}
	if leaf.MaxRep > 0 {
		fs = append(fs, "bit_packed_rep_levels")
	}
	// the same unsupported features on a page whose HEADER is larger than 64 KiB (an unknown
	// thrift field of 70 KiB in the page header, as a future writer may add)
	for _, f := range []string{"value_encoding_id_10", "data_page_v2"} {
		fs = append(fs, "bighdr:"+f)
	}
	switch leaf.Type {
	case pqfile.TInt32, pqfile.TInt64:
		fs = append(fs, "bighdr:delta_binary_packed")
	case pqfile.TByteArray:
		fs = append(fs, "bighdr:delta_length_byte_array")
	case pqfile.TFloat, pqfile.TDouble:
		fs = append(fs, "bighdr:byte_stream_split")
	case pqfile.TBoolean:
		fs = append(fs, "bighdr:rle_boolean")
	}
	if leaf.MaxDef > 0 {
		fs = append(fs, "bighdr:bit_packed_def_levels")
	}
	// encoding ids by number: ids the format defines but that cannot be honoured here (8 without
	// a dictionary page), ids a later format version may assign, and ids that only look like a
	// supported one after truncation to 8 or 16 bits (256 = PLAIN, 259 = RLE, 65536)
	for _, id := range encodingIDs {
		fs = append(fs, fmt.Sprintf("value_encoding_id_%d", id))
		if leaf.MaxDef > 0 {
			fs = append(fs, fmt.Sprintf("def_level_encoding_id_%d", id))
		}
		if leaf.MaxRep > 0 {
			fs = append(fs, fmt.Sprintf("rep_level_encoding_id_%d", id))
		}
	}
	return fs
}

var encodingIDs = []int32{8, 10, 64, 255, 256, 259, 65536, -1}

// applyFeature rewrites chunk wc so that the page at index pi uses feature.
// It returns false if the feature cannot be placed there.
func applyFeature(wc *pqfile.WChunk, pi int, feature string) bool {
	if strings.HasPrefix(feature, "bighdr:") {
		if !applyFeature(wc, pi, feature[len("bighdr:"):]) {
			return false
		}
		// the page that carries the feature (a dictionary/index page may have been inserted
		// before it: take the first data page at or after pi)
		for i := pi; i < len(wc.Pages); i++ {
			if wc.Pages[i].Type == pqfile.PData || wc.Pages[i].Type == pqfile.PDataV2 {
				wc.Pages[i].ExtraFields = append(wc.Pages[i].ExtraFields, thriftc.F(21, thriftc.Str(strings.Repeat("future-field-", 5600))))
				return true
			}
		}
		return false
	}
	leaf := wc.Leaf
	p := &wc.Pages[pi]
	src := p.Aux.(*PageSrc)
	levels := levelSections(leaf, src)
	asInts := func() []int64 {
		out := make([]int64, len(src.Vals))
		for i, v := range src.Vals {
			if leaf.Type == pqfile.TInt32 {
				out[i] = int64(int32(uint32(v.U)))
			} else {
				out[i] = int64(v.U)
			}
		}
		return out
	}
	switch feature {
	case "dictionary_rle", "dictionary_plain":
		if len(src.Vals) == 0 {
			return false
		}
		_, dictBody, idx := extra.Dictionary(leaf.Type, src.Vals)
		dictEnc, dataEnc := int32(pqfile.EPlain), int32(pqfile.ERLEDictionary)
		if feature == "dictionary_plain" {
			dictEnc, dataEnc = pqfile.EPlainDictionary, pqfile.EPlainDictionary
		}
		n := 0
		dvals, _, _ := extra.Dictionary(leaf.Type, src.Vals)
		n = len(dvals)
		p.Body = append(levels, idx...)
		p.Enc = dataEnc
		dict := pqfile.WPage{Type: pqfile.PDictionary, NumValues: int32(n), Body: dictBody, DictEnc: dictEnc}
		wc.Pages = append([]pqfile.WPage{dict}, wc.Pages...)
	case "dictionary_page_then_plain":
		if len(src.Vals) == 0 {
			return false
		}
		dvals, dictBody, _ := extra.Dictionary(leaf.Type, src.Vals)
		dict := pqfile.WPage{Type: pqfile.PDictionary, NumValues: int32(len(dvals)), Body: dictBody, DictEnc: pqfile.EPlain}
		wc.Pages = append([]pqfile.WPage{dict}, wc.Pages...)
	case "index_page_without_body":
		idx := pqfile.WPage{Type: pqfile.PIndex, Body: []byte{}}
		np := append([]pqfile.WPage{}, wc.Pages[:pi]...)
		np = append(np, idx)
		wc.Pages = append(np, wc.Pages[pi:]...)
	case "empty_dictionary_page_then_plain":
		// a dictionary page without entries (writers emit it for chunks they then store PLAIN)
		dict := pqfile.WPage{Type: pqfile.PDictionary, NumValues: 0, Body: []byte{}, DictEnc: pqfile.EPlain}
		wc.Pages = append([]pqfile.WPage{dict}, wc.Pages...)
	case "index_page":
		idx := pqfile.WPage{Type: pqfile.PIndex, Body: []byte{1, 2, 3, 4, 5, 6, 7, 8}}
		np := append([]pqfile.WPage{}, wc.Pages[:pi]...)
		np = append(np, idx)
		wc.Pages = append(np, wc.Pages[pi:]...)
	case "data_page_v2":
		var rep, def []byte
		if leaf.MaxRep > 0 {
			rep = extra.HybridNoPrefix(u64s(src.Reps), pqfile.LevelWidth(leaf.MaxRep))
		}
		if leaf.MaxDef > 0 {
			def = extra.HybridNoPrefix(u64s(src.Defs), pqfile.LevelWidth(leaf.MaxDef))
		}
		vals := pqfile.EncodePlain(leaf.Type, src.Vals)
		cvals, err := pqfile.Deflate(wc.Codec, vals, false, 0)
		if err != nil {
			return false
		}
		rows := 0
		for _, r := range src.Reps {
			if r == 0 {
				rows++
			}
		}
		if leaf.MaxRep == 0 {
			rows = int(p.NumValues)
		}
		tr := true
		p.Type = pqfile.PDataV2
		p.V2 = &pqfile.V2Header{NumNulls: p.NumValues - int32(len(src.Vals)), NumRows: int32(rows), DefLen: int32(len(def)), RepLen: int32(len(rep)), IsCompressed: &tr}
		p.Stored = append(append(append([]byte{}, rep...), def...), cvals...)
		p.UncompressedSize = int32(len(rep) + len(def) + len(vals))
	case "delta_binary_packed":
		p.Body = append(levels, extra.DeltaBinaryPacked(asInts())...)
		p.Enc = pqfile.EDeltaBinary
	case "delta_length_byte_array":
		p.Body = append(levels, extra.DeltaLengthByteArray(strs(src.Vals))...)
		p.Enc = pqfile.EDeltaLenBA
	case "delta_byte_array":
		p.Body = append(levels, extra.DeltaByteArray(strs(src.Vals))...)
		p.Enc = pqfile.EDeltaBA
	case "byte_stream_split":
		size := 4
		if leaf.Type == pqfile.TDouble {
			size = 8
		}
		p.Body = append(levels, extra.ByteStreamSplit(pqfile.EncodePlain(leaf.Type, src.Vals), size)...)
		p.Enc = pqfile.EByteStreamSplit
	case "rle_boolean":
		p.Body = append(levels, extra.RLEBooleans(src.Vals)...)
		p.Enc = pqfile.ERLE
	case "bit_packed_def_levels", "bit_packed_rep_levels":
		var body []byte
		if leaf.MaxRep > 0 {
			if feature == "bit_packed_rep_levels" {
				body = append(body, extra.BitPackedLevels(src.Reps, pqfile.LevelWidth(leaf.MaxRep))...)
				p.RepEnc = pqfile.EBitPacked
			} else {
				b, _ := hybrid.Encode(src.Reps, pqfile.LevelWidth(leaf.MaxRep), []hybrid.Seg{{BitPacked: true, N: len(src.Reps)}})
				body = append(body, b...)
			}
		}
		if leaf.MaxDef > 0 {
			if feature == "bit_packed_def_levels" {
				body = append(body, extra.BitPackedLevels(src.Defs, pqfile.LevelWidth(leaf.MaxDef))...)
				p.DefEnc = pqfile.EBitPacked
			} else {
				b, _ := hybrid.Encode(src.Defs, pqfile.LevelWidth(leaf.MaxDef), []hybrid.Seg{{BitPacked: true, N: len(src.Defs)}})
				body = append(body, b...)
			}
		}
		p.Body = append(body, pqfile.EncodePlain(leaf.Type, src.Vals)...)
	case "codec_lzo", "codec_brotli", "codec_lz4", "codec_zstd", "codec_lz4_raw", "codec_unassigned_8", "codec_unassigned_1000", "codec_negative":
		// a codec applies to the whole chunk
		for i := range wc.Pages {
			q := &wc.Pages[i]
			switch feature {
			case "codec_lzo":
				wc.Codec = pqfile.CLzo
				q.Stored = append([]byte{0xF0, 0x0D}, q.Body...) // opaque: rejection must come from the metadata
			case "codec_brotli":
				wc.Codec = pqfile.CBrotli
				q.Stored = extra.BrotliUncompressed(q.Body)
			case "codec_lz4":
				wc.Codec = pqfile.CLz4
				q.Stored = extra.LZ4Hadoop(q.Body)
			case "codec_zstd":
				wc.Codec = pqfile.CZstd
				q.Stored = extra.ZstdRaw(q.Body)
			case "codec_lz4_raw":
				wc.Codec = pqfile.CLz4Raw
				q.Stored = extra.LZ4RawLiteral(q.Body)
			case "codec_unassigned_8":
				wc.Codec = 8 // a codec id a later format version may assign
				q.Stored = append([]byte{0xF0, 0x0D}, q.Body...)
			case "codec_unassigned_1000":
				wc.Codec = 1000
				q.Stored = append([]byte{0xF0, 0x0D}, q.Body...)
			case "codec_negative":
				wc.Codec = -1
				q.Stored = append([]byte{0xF0, 0x0D}, q.Body...)
			}
			q.UncompressedSize = int32(len(q.Body))
		}
	default:
		var id int32
		switch {
		case scanID(feature, "value_encoding_id_", &id):
			p.Enc = id
		case scanID(feature, "def_level_encoding_id_", &id) && leaf.MaxDef > 0:
			p.DefEnc = id
		case scanID(feature, "rep_level_encoding_id_", &id) && leaf.MaxRep > 0:
			p.RepEnc = id
		default:
			return false
		}
	}
	return true
}

func scanID(feature, prefix string, id *int32) bool {
	if !strings.HasPrefix(feature, prefix) {
		return false
	}
	_, err := fmt.Sscanf(feature[len(prefix):], "%d", id)
	return err == nil
}

// carrier is one otherwise valid file with one unsupported feature.
type carrier struct {
	ID      string
	Shape   *Shape
	Feature string
	Col     string
	RG, PI  int
	Codec   int32
	File    []byte
	Recs    []*dremel.Tree
}

// forEachCarrier builds the carrier files of a shape: every column x every
// applicable feature x placements (quick: 2 (row group, page position)
// placements and one codec per (column, feature); thorough: all 9 x 3).
func forEachCarrier(c *Ctx, sh *Shape, prefix string, only func(feature string) bool, f func(cc *carrier)) {
	sc := sh.Schema()
	var counter uint64
	all, _ := EnumStructures(sc, lensSmall, 200, &counter)
	recs := pickSpread(all, min(len(all), 12))
	// make sure every column has values somewhere: add "everything present" records
	for i := 0; i < 3 || len(recs) < 15; i++ {
		recs = append(recs, genTree(sc, fullChooser{}, counterVals{&counter}, []int{0, 1, 2}))
	}
	if strings.HasPrefix(prefix, "big/") {
		// row groups of more than 1 MiB: 24 records whose strings are 48-70 KiB each
		rng := Rng(c.Seed, "c18big/"+sh.Name)
		recs = recs[:0]
		for i := 0; i < 24; i++ {
			recs = append(recs, genTree(sc, fullChooser{}, bigStrings{rng}, []int{0, 1, 2}))
		}
	}
	n := len(recs)
	part := []int{n / 3, n / 3, n - 2*(n/3)}
	// interleave full records through all row groups
	mixed := make([]*dremel.Tree, 0, n)
	for i := 0; i < n; i++ {
		mixed = append(mixed, recs[(i*7)%n])
	}
	recs = mixed
	for ci, leaf := range sc.Leaves {
		col := strings.Join(leaf.Path, ".")
		for fi, feature := range featuresFor(&leaf.Node) {
			if only != nil && !only(feature) {
				continue
			}
			var combos [][2]int // (row group, page position 0 first / 1 middle / 2 last)
			if c.Thorough {
				for g := 0; g < 3; g++ {
					for pp := 0; pp < 3; pp++ {
						combos = append(combos, [2]int{g, pp})
					}
				}
			} else {
				k := ci + fi
				combos = [][2]int{{k % 3, (k / 3) % 3}, {(k + 1) % 3, (k/3 + 1) % 3}}
			}
			for _, codec := range []int32{0, 1, 2} {
				if !c.Thorough && int(codec) != (ci+fi)%3 {
					continue
				}
				for _, cb := range combos {
					id := fmt.Sprintf("%s%s/col=%s/%s/rg=%d/pos=%d/%s", prefix, sh.Name, col, feature, cb[0], cb[1], CodecNames[int(codec)])
					if !c.Take(id) {
						continue
					}
					rgs, err := baseRowGroups(sc, recs, part, codec)
					if err != nil {
						c.Out.Inconclusive("reference writer: " + err.Error())
						continue
					}
					wc := &rgs[cb[0]].Chunks[ci]
					pi := 0
					switch cb[1] {
					case 1:
						pi = len(wc.Pages) / 2
					case 2:
						pi = len(wc.Pages) - 1
					}
					if !applyFeature(wc, pi, feature) {
						c.Out.Count("not_placeable", 1)
						continue
					}
					file, err := pqfile.WriteFile(&sc.Root.Node, rgs, pqfile.WOptions{CreatedBy: "reference writer (C18)"})
					if err != nil {
						c.Out.Inconclusive("reference writer: " + err.Error())
						continue
					}
					// structural sanity of the carrier: footer, tree, page walk
					pf, err := pqfile.Parse(file)
					if err == nil {
						_, err = pqfile.BuildTree(pf.Schema)
					}
					if err == nil {
						for _, rg := range pf.RowGroups {
							for _, ch := range rg.Columns {
								if _, e := pqfile.WalkChunk(file, ChunkStart(&ch), ch.TotalComp); e != nil {
									err = e
								}
							}
						}
					}
					if err != nil {
						c.Out.Inconclusive(fmt.Sprintf("carrier file for %s is malformed: %v", id, err))
						continue
					}
					f(&carrier{ID: id, Shape: sh, Feature: feature, Col: col, RG: cb[0], PI: pi, Codec: codec, File: file, Recs: recs})
				}
			}
		}
	}
}

// ChunkStart is the offset of the first page of a chunk (dictionary and index
// pages may precede the first data page).
func ChunkStart(ch *pqfile.Chunk) int64 {
	st := ch.DataPageOffset
	if ch.DictPageOffset != nil && *ch.DictPageOffset < st {
		st = *ch.DictPageOffset
	}
	if ch.IndexPageOff != nil && *ch.IndexPageOff < st {
		st = *ch.IndexPageOff
	}
	return st
}

func runC18(c *Ctx) {
	for _, sh := range c.SelShapes() {
		sc := sh.Schema()
		check := func(cc *carrier) {
			n := len(cc.Recs)
			c.Out.Count("cases", 1)
			if strings.HasPrefix(cc.ID, "big/") {
				c.Out.Count("carriers_with_row_groups_over_1MiB", 1)
			}
			c.Out.Count("feature_"+cc.Feature, 1)
			if cc.RG > 0 {
				c.Out.Count("feature_in_later_row_group", 1)
			}
			if cc.PI > 0 {
				c.Out.Count("feature_in_later_page", 1)
			}
			c.Out.Distinct(cc.ID, cc.RG > 0 || cc.PI > 0)
			// every carrier is read twice: through a plain ReadSeeker and through a source that
			// also offers ReadAt/ReadByte/WriteTo (as *os.File and bytes.Reader do)
			for _, rich := range []bool{false, true} {
				var src io.ReadSeeker = NewSource(cc.File)
				if rich {
					src = RichSource{NewSource(cc.File)}
					c.Out.Count("reads_through_a_source_with_ReadAt", 1)
				}
				res := ReadAll(sh, src, n+5)
				bad := func(kind, detail string) {
					c.Out.Violate(Violation{Prop: "C18", Key: "feature=" + cc.Feature + ";kind=" + kind, Case: cc.ID, Shape: sh.Name,
						Detail: fmt.Sprintf("otherwise valid file (%d bytes, %d rows in 3 row groups) whose column %s uses %s in row group %d, page %d (codec %s), read through a source with ReadAt: %v: %s", len(cc.File), n, cc.Col, cc.Feature, cc.RG, cc.PI, CodecNames[int(cc.Codec)], rich, detail)})
				}
				switch {
				case res.Panic != nil:
					bad("panic", fmt.Sprintf("reader panicked: %v\n%s", res.Panic, clip(res.Stack)))
				case res.CtorErr != nil:
					c.Out.Count("refused_by_constructor", 1)
					c.Out.SetAdd("refusal_messages", errClass(res.CtorErr))
				case res.Err != nil:
					c.Out.Count("refused_during_iteration", 1)
					c.Out.Count("rows_delivered_before_refusal", int64(len(res.Recs)))
					c.Out.SetAdd("refusal_messages", errClass(res.Err))
				default:
					wrong := CompareRecs(sc, cc.Recs, res.Recs)
					if wrong == "" {
						wrong = "(the rows happen to equal the file's logical content)"
					}
					bad("accepted", fmt.Sprintf("no error from the constructor or Error(); %d rows delivered; %s", len(res.Recs), wrong))
				}
			}
			c.Out.Sample(map[string]interface{}{"case": cc.ID, "feature": cc.Feature, "column": cc.Col, "row_group": cc.RG, "page": cc.PI, "file_bytes": len(cc.File)})
		}
		forEachCarrier(c, sh, "", nil, check)
		if sh.Name == "p8" {
			// the same features on files whose row groups exceed 1 MiB
			forEachCarrier(c, sh, "big/", func(f string) bool {
				return strings.HasPrefix(f, "codec_") || strings.HasPrefix(f, "value_encoding_id_") || f == "delta_length_byte_array" || f == "rle_boolean" || f == "bit_packed_def_levels" || f == "data_page_v2"
			}, check)
		}
	}
}

// fullChooser makes every optional present and every list of length 2.
type fullChooser struct{}

func (fullChooser) Choose(n int) int {
	if n == 2 {
		return 1
	}
	return n - 1
}
