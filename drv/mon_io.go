package drv

import (
	"fmt"
	"io"
	"io/fs"
	"math/rand"
	"os"
	"runtime"
	"sort"
	"strings"

	"github.com/parsyl/parquet/verifkit/ref/dremel"
	"github.com/parsyl/parquet/verifkit/ref/pqfile"
)

func init() {
	RegisterProp("C08", runC08)
	RegisterProp("C09", runC09)
	RegisterProp("C10", runC10)
	RegisterProp("C11", runC11)
}

// ioFile is one workload file for the I/O properties.
type ioFile struct {
	ID    string
	Shape *Shape
	Codec int
	Page  int
	Recs  []*dremel.Tree
	Part  []int
	Kind  string // single-page, multi-page, multi-rowgroup
	// Bytes: the file itself when it was not written by the generated writer
	// (Kind "foreign": written by the reference writer with its encoding freedoms)
	Bytes []byte
}

// ioWorkload returns, per shape and codec, a single-page file, a multi-page
// file and a multi-row-group file (more and larger ones in thorough).
func ioWorkload(c *Ctx, small bool) []*ioFile {
	var out []*ioFile
	for _, sh := range c.SelShapes() {
		s := sh.Schema()
		for _, codec := range []int{0, 1, 2} {
			variants := 1
			if c.Thorough {
				variants = 10
			}
			for v := 0; v < variants; v++ {
				for _, kind := range []string{"single-page", "multi-page", "multi-rowgroup"} {
					id := fmt.Sprintf("%s/%s/%s/%d", sh.Name, CodecNames[codec], kind, v)
					rng := Rng(c.Seed, "iofile/"+id)
					var n, page int
					var part []int
					switch kind {
					case "single-page":
						n = 1 + rng.Intn(5)
						page = 1000
						part = []int{n}
					case "multi-page":
						n = 7 + rng.Intn(6)
						page = 2 + rng.Intn(3)
						part = []int{n}
					default:
						n = 9 + rng.Intn(6)
						page = 2 + rng.Intn(3)
						a := 1 + rng.Intn(n-2)
						b := 1 + rng.Intn(n-a-1)
						part = []int{a, b, n - a - b}
					}
					gk := GenRandom
					if v%2 == 1 {
						gk = GenExtremeS // no 70 KiB strings: they only make per-call fault enumeration slow
					}
					recs := GenRecords(s, gk, n, rng, false)
					out = append(out, &ioFile{ID: id, Shape: sh, Codec: codec, Page: page, Recs: recs, Part: part, Kind: kind})
				}
			}
		}
	}
	return out
}

// alignedFiles: pages whose uncompressed body is exactly 2^k bytes for the
// fixed-width required columns (512..8192 rows per page: 4 KiB bufio buffers,
// the 32 KiB deflate window, 64 KiB snappy blocks), two full pages and a rest.
func alignedFiles(c *Ctx) []*ioFile {
	var out []*ioFile
	for _, sh := range c.SelShapes() {
		if sh.Name != "p1" && sh.Name != "p4" {
			continue
		}
		s := sh.Schema()
		for _, codec := range []int{0, 1, 2} {
			for _, page := range []int{512, 1024, 4096, 8192} {
				if sh.Name == "p4" && page != 4096 {
					continue
				}
				id := fmt.Sprintf("%s/%s/aligned-%d/0", sh.Name, CodecNames[codec], page)
				rng := Rng(c.Seed, "iofile/"+id)
				n := 2*page + 3
				recs := GenRecords(s, GenUniform, n, rng, false)
				out = append(out, &ioFile{ID: id, Shape: sh, Codec: codec, Page: page, Recs: recs, Part: []int{n}, Kind: "aligned"})
			}
		}
	}
	return out
}

func (f *ioFile) write(c *Ctx) ([]byte, bool) {
	if f.Bytes != nil {
		return f.Bytes, true
	}
	cs := &RTCase{ID: f.ID, Shape: f.Shape, Recs: f.Recs, Partition: f.Part, Page: f.Page, Codec: f.Codec}
	return WriteCase(c, cs, false)
}

// repoSite classifies the current call stack: the innermost function of the
// repository (runtime package or generated code) and whether pageData is on
// the stack.
func repoSite() string {
	pcs := make([]uintptr, 40)
	n := runtime.Callers(3, pcs)
	frames := runtime.CallersFrames(pcs[:n])
	first := ""
	inPageData := false
	for {
		fr, more := frames.Next()
		fn := fr.Function
		if strings.Contains(fn, "parsyl/parquet") && !strings.Contains(fn, "verifkit") {
			short := fn[strings.LastIndex(fn, "/")+1:]
			if strings.Contains(fn, "verifwork") {
				// generated package: drop the package name (differs per shape)
				if i := strings.Index(short, "."); i >= 0 {
					short = "gen" + short[i:]
				}
			}
			if first == "" {
				first = short
			}
			if strings.HasSuffix(fn, "parquet.pageData") {
				inPageData = true
			}
		}
		if !more {
			break
		}
	}
	if first == "" {
		first = "?"
	}
	if inPageData && !strings.Contains(first, "pageData") {
		first += "<pageData"
	}
	return first
}

// ---------- C08: fragmentation ----------

type fragPattern struct {
	Name string
	Frag func(want int, off int64) int
	EOF  bool
	// Rich: the source also offers ReadByte, ReadAt and WriteTo
	Rich bool
	// StartAt: the source's read position when it is handed to the reader (0 = start,
	// -1 = end of file, n = offset n): the reader positions the source itself
	StartAt int
}

func fragPatterns(c *Ctx, fileID string) []fragPattern {
	var ps []fragPattern
	chunks := []int{}
	for i := 1; i <= 64; i++ {
		chunks = append(chunks, i)
	}
	chunks = append(chunks, 127, 128, 4095, 4096)
	if !c.Thorough {
		// quick: every chunk size 1..16, then a spread
		chunks = []int{1, 2, 3, 4, 5, 6, 7, 8, 9, 10, 11, 12, 13, 14, 15, 16, 17, 23, 31, 32, 33, 47, 63, 64, 65, 127, 128, 4096}
	}
	for _, k := range chunks {
		k := k
		ps = append(ps, fragPattern{Name: fmt.Sprintf("chunk%d", k), Frag: func(want int, off int64) int { return k }})
	}
	nr := 6
	if c.Thorough {
		nr = 40
	}
	for i := 0; i < nr; i++ {
		seed := SubSeed(c.Seed, fmt.Sprintf("frag/%s/%d", fileID, i))
		rng := rand.New(rand.NewSource(seed))
		ps = append(ps, fragPattern{Name: fmt.Sprintf("random%d", i), Frag: func(want int, off int64) int { return 1 + rng.Intn(want) }})
	}
	ps = append(ps, fragPattern{Name: "eof-with-data", EOF: true})
	ps = append(ps, fragPattern{Name: "eof-with-data+chunk7", EOF: true, Frag: func(want int, off int64) int { return 7 }})
	ps = append(ps, fragPattern{Name: "eof-with-data+chunk1", EOF: true, Frag: func(want int, off int64) int { return 1 }})
	// a short read exactly once, at every k-th call, exercises single call sites
	for _, k := range []int{2, 3, 5} {
		k := k
		cnt := 0
		ps = append(ps, fragPattern{Name: fmt.Sprintf("every%dth-call-short", k), Frag: func(want int, off int64) int {
			cnt++
			if cnt%k == 0 {
				return (want + 1) / 2
			}
			return want
		}})
	}
	ps = append(ps, fragPattern{Name: "handed-over-at-end", StartAt: -1}, fragPattern{Name: "handed-over-at-offset-5", StartAt: 5, Frag: func(want int, off int64) int { return 9 }},
		fragPattern{Name: "rich-source-handed-over-at-end", Rich: true, StartAt: -1})
	ps = append(ps, fragPattern{Name: "rich-source-whole", Rich: true},
		fragPattern{Name: "rich-source-chunk5", Rich: true, Frag: func(want int, off int64) int { return 5 }},
		fragPattern{Name: "rich-source-eof-with-data", Rich: true, EOF: true, Frag: func(want int, off int64) int { return 3 }})
	return ps
}

// foreignFiles: per shape n files written by the reference writer (page checksums,
// unknown thrift fields, free level segmentation, mixed codecs, opaque bytes before
// the footer): what another Parquet implementation may hand to the reader.
func foreignFiles(c *Ctx, n int) []*ioFile {
	var out []*ioFile
	for _, sh := range c.SelShapes() {
		sc := sh.Schema()
		for k := 0; k < n; k++ {
			id := fmt.Sprintf("%s/mixed/foreign/%d", sh.Name, k)
			rng := Rng(c.Seed, "iofile/"+id)
			recs := GenRecords(sc, []GenKind{GenRandom, GenRuns, GenExtremeS}[k%3], 4+rng.Intn(60), rng, false)
			part := RandomPartition(len(recs), rng)
			file, _, err := BuildForeign(sc, recs, part, rng, nil)
			if err != nil {
				continue
			}
			out = append(out, &ioFile{ID: id, Shape: sh, Codec: 0, Page: 1 << 30, Recs: recs, Part: part, Kind: "foreign", Bytes: file})
		}
	}
	return out
}

func runC08(c *Ctx) {
	nf := 3
	if c.Thorough {
		nf = 12
	}
	for _, f := range append(append(append(ioWorkload(c, false), alignedFiles(c)...), xlFiles(c)...), foreignFiles(c, nf)...) {
		if c.Only != "" && !strings.HasPrefix(c.Only, f.ID+"/") {
			continue
		}
		file, ok := f.write(c)
		if !ok {
			continue
		}
		sc := f.Shape.Schema()
		base := ReadAll(f.Shape, NewSource(file), len(f.Recs)+5)
		if base.Panic != nil || base.Reported() || CompareRecs(sc, f.Recs, base.Recs) != "" {
			c.Out.Inconclusive(fmt.Sprintf("file %s does not read back with a full-read source (a C01 matter): ctor=%v err=%v panic=%v", f.ID, base.CtorErr, base.Err, base.Panic))
			continue
		}
		c.Out.Count("files", 1)
		for _, p := range fragPatterns(c, f.ID) {
			if f.Kind == "foreign" {
				c.Out.Count("foreign_file_cases", 1)
			}
			if (f.Kind == "aligned" || f.Kind == "xl" || f.Kind == "foreign") && p.Name != "chunk1" && p.Name != "chunk7" && p.Name != "chunk4096" && p.Name != "random0" && p.Name != "every3th-call-short" && p.Name != "rich-source-chunk5" && p.Name != "handed-over-at-end" {
				continue
			}
			id := f.ID + "/" + p.Name
			if !c.Take(id) {
				continue
			}
			c.Out.Count("cases", 1)
			src := NewSource(file)
			src.Frag = p.Frag
			src.EOFWithData = p.EOF
			if p.StartAt != 0 {
				src.SetPos(p.StartAt)
				c.Out.Count("cases_with_source_not_at_offset_0", 1)
			}
			nsite := 0
			src.SiteOf = func() string {
				nsite++
				if nsite > 64 && nsite%97 != 0 {
					return "(unsampled)"
				}
				return CodecNames[f.Codec] + ":" + repoSite()
			}
			var rs io.ReadSeeker = src
			if p.Rich {
				rs = RichSource{src}
				c.Out.Count("cases_with_rich_source", 1)
			}
			res := ReadAll(f.Shape, rs, len(f.Recs)+5)
			c.Out.Count("read_calls", int64(src.Calls))
			c.Out.Count("short_reads", int64(src.ShortReads))
			c.Out.Count("eof_with_data_hits", int64(src.EOFHits))
			for s := range src.ShortSites {
				if s != "(unsampled)" {
					c.Out.SetAdd("short_read_sites", s)
					if strings.Contains(s, "pageData") {
						c.Out.Count("pagedata_short_"+CodecNames[f.Codec], 1)
					}
				}
			}
			c.Out.Distinct(id, src.ShortReads > 0)
			bad := func(kind, detail string) {
				c.Out.Violate(Violation{Prop: "C08", Key: fmt.Sprintf("shape=%s;codec=%s;kind=%s", f.Shape.Name, CodecNames[f.Codec], kind), Case: id, Shape: f.Shape.Name,
					Detail: fmt.Sprintf("file %s (%d bytes, %d records), source pattern %s (%d read calls, %d short): %s", f.ID, len(file), len(f.Recs), p.Name, src.Calls, src.ShortReads, detail)})
			}
			switch {
			case res.Panic != nil:
				bad("panic", fmt.Sprintf("%v\n%s", res.Panic, clip(res.Stack)))
			case res.CtorErr != nil:
				bad("error", fmt.Sprintf("NewParquetReader: %v (a full-read source reads the same bytes without error)", res.CtorErr))
			case res.Err != nil:
				bad("error", fmt.Sprintf("Error() = %v after %d rows (a full-read source reads the same bytes without error)", res.Err, len(res.Recs)))
			default:
				if diff := CompareRecs(sc, base.Recs, res.Recs); diff != "" {
					bad("rows_differ", diff)
				}
			}
		}
		c.Out.Sample(map[string]interface{}{"file": f.ID, "bytes": len(file), "records": len(f.Recs), "partition": f.Part, "page": f.Page, "patterns": "chunk1..64,127,128,4095,4096,random,eof-with-data"})
	}
}

// ---------- C09: write faults ----------

func writeSite(label string, p []byte) string {
	pcs := make([]uintptr, 40)
	n := runtime.Callers(3, pcs)
	frames := runtime.CallersFrames(pcs[:n])
	var fns []string
	for {
		fr, more := frames.Next()
		fns = append(fns, fr.Function)
		if !more {
			break
		}
	}
	has := func(s string) bool {
		for _, f := range fns {
			if strings.HasSuffix(f, s) {
				return true
			}
		}
		return false
	}
	switch {
	case has(".begin"):
		return "leading_magic"
	case has("parquet.(*Metadata).WritePageHeader"):
		return "page_header"
	case has("parquet.(*RequiredField).DoWrite"):
		return "page_body_required"
	case has("parquet.(*OptionalField).DoWrite"):
		return "page_body_optional"
	case has("parquet.(*Metadata).Footer"):
		if has("encoding/binary.Write") {
			return "footer_length"
		}
		return "footer"
	case has(".(*ParquetWriter).Close"):
		return "trailing_magic"
	}
	return "other:" + label
}

func runC09(c *Ctx) {
	for _, f := range append(ioWorkload(c, true), xlFiles(c)...) {
		if c.Only != "" && !strings.HasPrefix(c.Only, f.ID+"/") {
			continue
		}
		ops := HistoryOf(f.Recs, f.Part)
		// fault-free run: count the sink writes
		s0 := NewSink()
		o0 := RunHistory(f.Shape, s0, f.Page, f.Codec, ops, false)
		if o0.Panic != nil || !o0.Finished {
			c.Out.Inconclusive(fmt.Sprintf("workload %s fails without any fault (a C01 matter)", f.ID))
			continue
		}
		n := len(s0.Events)
		c.Out.Count("workloads", 1)
		c.Out.Count("sink_writes_total", int64(n))
		c.Out.Sample(map[string]interface{}{"workload": f.ID, "sink_writes": n, "records": len(f.Recs), "partition": f.Part, "page": f.Page, "fault_positions": fmt.Sprintf("0..%d x {transient,sticky,partial}", n-1)})
		for k := 0; k < n; k++ {
			for mi, mode := range []string{"transient", "sticky", "partial", "fullcount", "transient", "sticky", "transient", "transient", "sticky"} {
				// 4, 5: a destination that also offers Flush/Sync/Close/WriteString/ReadFrom (all
				// succeeding), as bufio.Writer, os.File or gzip.Writer do
				rich := mi == 4 || mi == 5
				// 6..8: the error VALUE is one a library may know: what a closed *os.File returns
				// (a *fs.PathError wrapping os.ErrClosed), io.EOF, io.ErrShortWrite
				var failErr error
				switch mi {
				case 6:
					failErr = &fs.PathError{Op: "write", Path: "out.parquet", Err: os.ErrClosed}
				case 7:
					failErr = io.EOF
				case 8:
					failErr = io.ErrShortWrite
				}
				id := fmt.Sprintf("%s/k=%d/%s", f.ID, k, mode)
				if rich {
					id += "/rich-sink"
				}
				if failErr != nil {
					id += "/err=" + failErr.Error()
				}
				if !c.Take(id) {
					continue
				}
				c.Out.Count("cases", 1)
				sink := NewSink()
				sink.FailAt = k
				sink.FailMode = mode
				sink.FailErr = failErr
				if failErr != nil {
					c.Out.Count("cases_with_a_well_known_error_value", 1)
				}
				site := ""
				sink.Hook = func(ev WriteEvent, p []byte) {
					if len(sink.Events)-1 == k {
						site = writeSite(ev.Label, p)
					}
				}
				// label every op so that the failing API call is known
				var dst io.Writer = sink
				var rs *RichSink
				if rich {
					rs = &RichSink{Sink: sink}
					dst = rs
					c.Out.Count("cases_with_rich_sink", 1)
				}
				out := runLabelled(f.Shape, sink, dst, f.Page, f.Codec, ops)
				if rs != nil && rs.Flushes+rs.Syncs+rs.Closes > 0 {
					c.Out.Count("optional_sink_methods_called", int64(rs.Flushes+rs.Syncs+rs.Closes))
				}
				c.Out.Count("site_"+site, 1)
				c.Out.SetAdd("fault_sites", site)
				c.Out.Distinct(id, true)
				bad := func(kind, detail string) {
					c.Out.Violate(Violation{Prop: "C09", Key: fmt.Sprintf("site=%s;kind=%s", site, kind), Case: id, Shape: f.Shape.Name,
						Detail: fmt.Sprintf("workload %s: sink write #%d of %d (%s, during %s, mode %s, rich sink %v): %s", f.ID, k, n, site, sink.FailedIn, mode, rich, detail)})
				}
				if out.Panic != nil {
					bad("panic", fmt.Sprintf("%v\n%s", out.Panic, clip(out.Stack)))
					continue
				}
				if !sink.Failed {
					bad("fault_not_reached", "the run issued fewer sink writes than the fault-free run (non-deterministic writer?)")
					continue
				}
				if out.errLabel != sink.FailedIn {
					if out.errLabel == "" {
						bad("swallowed", fmt.Sprintf("the write failed during %s but every API call returned nil", sink.FailedIn))
					} else {
						bad("swallowed", fmt.Sprintf("the write failed during %s, which returned nil; an error surfaced only at %s", sink.FailedIn, out.errLabel))
					}
				}
			}
		}
	}
}

type labelledOutcome struct {
	WriteOutcome
	errLabel string
}

// runLabelled is RunHistory with per-op labels ("new", "3:write", "9:close").
func runLabelled(sh *Shape, sink *Sink, dst io.Writer, page, codec int, ops []Op) (out labelledOutcome) {
	sc := sh.Schema()
	defer func() {
		if r := recover(); r != nil {
			out.Panic = r
			out.Stack = stack()
		}
	}()
	sink.Label = "new"
	w, err := sh.NewWriter(dst, page, codec)
	if err != nil {
		out.CtorErr = err
		out.errLabel = "new"
		return out
	}
	for i, op := range ops {
		sink.Label = fmt.Sprintf("%d:%s", i, op.Kind)
		var err error
		switch op.Kind {
		case "add":
			w.Add(sc.ToGo(op.Rec).Interface())
		case "write":
			err = w.Write()
		case "close":
			err = w.Close()
		}
		if err != nil {
			out.errLabel = sink.Label
			// a caller does not drop the writer on the floor after an error: the remaining calls
			// (at least the deferred Close) still happen. Their results are not judged — a panic is.
			for j := i + 1; j < len(ops); j++ {
				sink.Label = fmt.Sprintf("%d:%s(after the error)", j, ops[j].Kind)
				switch ops[j].Kind {
				case "add":
					w.Add(sc.ToGo(ops[j].Rec).Interface())
				case "write":
					w.Write()
				case "close":
					w.Close()
				}
			}
			return out
		}
	}
	out.Finished = true
	return out
}

func stack() string {
	buf := make([]byte, 1<<14)
	return string(buf[:runtime.Stack(buf, false)])
}

// ---------- C10: read faults ----------

func runC10(c *Ctx) {
	ScanAfterEnd = true
	defer func() { ScanAfterEnd = false }()
	for _, f := range append(append(ioWorkload(c, true), xlFiles(c)...), foreignFiles(c, 1)...) {
		if c.Only != "" && !strings.HasPrefix(c.Only, f.ID+"/") {
			continue
		}
		file, ok := f.write(c)
		if !ok {
			continue
		}
		sc := f.Shape.Schema()
		for _, frag := range []int{0, 7, -1} {
			if frag != 0 && f.Kind == "xl" {
				// seven-byte reads of megabyte pages make hundreds of thousands of fault
				// positions that differ only in the offset inside one page body
				continue
			}
			mk := func() *Source {
				s := NewSource(file)
				if frag > 0 {
					s.Frag = func(want int, off int64) int { return frag }
				}
				return s
			}
			// frag == -1: whole reads through a source that also offers ReadByte/ReadAt/WriteTo
			wrap := func(s *Source) io.ReadSeeker {
				if frag == -1 {
					return RichSource{s}
				}
				return s
			}
			b := mk()
			base := ReadAll(f.Shape, wrap(b), len(f.Recs)+5)
			if base.Panic != nil || base.Reported() || CompareRecs(sc, f.Recs, base.Recs) != "" {
				if frag == 0 {
					c.Out.Inconclusive(fmt.Sprintf("file %s does not read back without faults (a C01 matter)", f.ID))
				} else {
					c.Out.Inconclusive(fmt.Sprintf("file %s does not read back under chunk-%d fragmentation (a C08 matter)", f.ID, frag))
				}
				continue
			}
			n := b.Calls
			c.Out.Count("files", 1)
			c.Out.Count("source_calls_total", int64(n))
			c.Out.Sample(map[string]interface{}{"file": f.ID, "bytes": len(file), "source_calls": n, "fragmentation": frag, "fault_positions": fmt.Sprintf("0..%d x {zero,partial}", n-1)})
			// "eof": the failing call returns (0, io.EOF) — a source that ends early
			modes := []string{"zero", "partial", "eof"}
			if frag != 0 {
				modes = modes[:2]
			}
			for k := 0; k < n; k++ {
				for _, mode := range modes {
					id := fmt.Sprintf("%s/frag=%d/k=%d/%s", f.ID, frag, k, mode)
					if !c.Take(id) {
						continue
					}
					c.Out.Count("cases", 1)
					src := mk()
					src.FailAt = k
					src.FailMode = mode
					site := ""
					// classify by where the fault landed in the file
					res := ReadAll(f.Shape, wrap(src), len(f.Recs)+5)
					if frag == -1 {
						c.Out.Count("cases_with_rich_source", 1)
					}
					site = readSite(file, src)
					c.Out.Count("site_"+site, 1)
					c.Out.SetAdd("fault_sites", site)
					// non-trivial: the fault lands where rows are at stake (a seek, a page header, a
					// page body); faults inside the footer can only end in a constructor error
					c.Out.Distinct(id, site != "footer" && site != "footer_length" && site != "leading_magic")
					bad := func(kind, detail string) {
						c.Out.Violate(Violation{Prop: "C10", Key: fmt.Sprintf("site=%s;kind=%s", site, kind), Case: id, Shape: f.Shape.Name,
							Detail: fmt.Sprintf("file %s (%d bytes): source call #%d of %d fails (%s, at offset %d, seek=%v, mode %s): %s", f.ID, len(file), k, n, site, src.FailOff, src.FailedSeek, mode, detail)})
					}
					switch {
					case res.Panic != nil:
						bad("panic", fmt.Sprintf("%v\n%s", res.Panic, clip(res.Stack)))
					case res.CtorErr != nil:
						c.Out.Count("outcome_ctor_error", 1)
					case res.Err != nil:
						c.Out.Count("outcome_iteration_error", 1)
					default:
						// no error reported: every row must be right and none missing
						if res.Capped {
							bad("silent_wrong", "no error reported and Next() kept returning true past the file's row count")
						} else if diff := CompareRecs(sc, f.Recs, res.Recs); diff != "" {
							bad("silent_wrong", "no error from the constructor or Error(), yet the rows are not the file's rows: "+diff)
						} else {
							c.Out.Count("outcome_benign", 1)
						}
					}
				}
			}
		}
	}
}

// readSite classifies the offset at which a read fault landed.
func readSite(file []byte, src *Source) string {
	if src.FailedSeek {
		return "seek"
	}
	off := src.FailOff
	n := int64(len(file))
	switch {
	case off >= n-8:
		return "footer_length"
	case off < 4:
		return "leading_magic"
	}
	pf, err := pqfile.Parse(file)
	if err != nil {
		return "?"
	}
	if off >= int64(pf.FooterOff) {
		return "footer"
	}
	for _, rg := range pf.RowGroups {
		for _, ch := range rg.Columns {
			if off >= ch.DataPageOffset && off < ch.DataPageOffset+ch.TotalComp {
				pages, err := pqfile.WalkChunk(file, ch.DataPageOffset, ch.TotalComp)
				if err != nil {
					return "chunk"
				}
				for _, p := range pages {
					if off < int64(p.Offset+p.HeaderLen) {
						return "page_header"
					}
					if off < int64(p.Offset+p.HeaderLen+int(p.Comp)) {
						return "page_body_" + CodecNames[int(ch.Codec)]
					}
				}
			}
		}
	}
	return "data_area"
}

// ---------- C11: truncation ----------

func cutClass(pf *pqfile.File, file []byte, cut int) string {
	n := len(file)
	switch {
	case cut >= n-4:
		return "trailer_magic"
	case cut >= n-8:
		return "footer_length"
	case cut >= pf.FooterOff:
		return "footer"
	case cut < 4:
		return "leading_magic"
	}
	for gi, rg := range pf.RowGroups {
		for ci, ch := range rg.Columns {
			if int64(cut) == ch.DataPageOffset && ci == 0 && gi > 0 {
				return "between_row_groups"
			}
			if int64(cut) >= ch.DataPageOffset && int64(cut) < ch.DataPageOffset+ch.TotalComp {
				pages, err := pqfile.WalkChunk(file, ch.DataPageOffset, ch.TotalComp)
				if err != nil {
					return "chunk"
				}
				for _, p := range pages {
					if cut == p.Offset {
						return "page_boundary"
					}
					if cut < p.Offset+p.HeaderLen {
						return "page_header"
					}
					if cut < p.Offset+p.HeaderLen+int(p.Comp) {
						return "page_body"
					}
				}
			}
		}
	}
	return "data_area"
}

func runC11(c *Ctx) {
	files := append(ioWorkload(c, true), foreignFiles(c, 2)...)
	for _, f := range files {
		if c.Only != "" && !strings.HasPrefix(c.Only, f.ID+"/") {
			continue
		}
		file, ok := f.write(c)
		if !ok {
			continue
		}
		pf, err := pqfile.Parse(file)
		if err != nil {
			c.Out.Inconclusive(fmt.Sprintf("file %s is not parseable by the reference (a C02 matter): %v", f.ID, err))
			continue
		}
		c.Out.Count("files", 1)
		c.Out.Count("file_bytes_total", int64(len(file)))
		c.Out.Sample(map[string]interface{}{"file": f.ID, "bytes": len(file), "records": len(f.Recs), "prefixes": fmt.Sprintf("every length 0..%d", len(file)-1)})
		for cut := 0; cut < len(file); cut++ {
			id := fmt.Sprintf("%s/cut=%d", f.ID, cut)
			if !c.Take(id) {
				continue
			}
			checkPrefix(c, f, pf, file, cut, id)
		}
	}
	runC11Big(c)
	runC11Trailer(c)
	runC11Resonant(c)
	runC11Embedded(c)
	runC11SelfFooter(c)
	runC11AfterEmpty(c)
	if c.Thorough {
		runC11Large(c)
	}
}

// runC11Big: EVERY prefix of one file of 100-250 KiB per tier-0 shape (uncompressed, small
// integers and short strings, so that byte patterns which look like plausible footer
// lengths — 00 00 01 00 and friends — occur at many offsets beyond 64 KiB).
func runC11Big(c *Ctx) {
	for _, sh := range c.SelShapes() {
		if sh.Name != "p1" && !(c.Thorough && (sh.Name == "p2" || sh.Name == "p4")) {
			continue
		}
		s := sh.Schema()
		for _, codec := range []int{0} {
			id0 := fmt.Sprintf("%s/%s/big", sh.Name, CodecNames[codec])
			if c.Only != "" && !strings.HasPrefix(c.Only, id0+"/") {
				continue
			}
			rng := Rng(c.Seed, "c11big/"+id0)
			recs := GenRecords(s, GenRandom, 700, rng, false)
			f := &ioFile{ID: id0, Shape: sh, Codec: codec, Page: 300, Recs: recs, Part: []int{400, 300}, Kind: "big"}
			file, ok := f.write(c)
			if !ok {
				continue
			}
			pf, err := pqfile.Parse(file)
			if err != nil {
				continue
			}
			if c.Shard == 0 {
				c.Out.Count("files", 1)
				c.Out.Count("big_file_bytes", int64(len(file)))
			}
			for cut := 0; cut < len(file); cut++ {
				id := fmt.Sprintf("%s/cut=%d", id0, cut)
				if !c.Take(id) {
					continue
				}
				c.Out.Count("big_file_cuts", 1)
				checkPrefix(c, f, pf, file, cut, id)
			}
		}
	}
}

func checkPrefix(c *Ctx, f *ioFile, pf *pqfile.File, file []byte, cut int, id string) {
	c.Out.Count("cases", 1)
	cls := cutClass(pf, file, cut)
	c.Out.Count("cut_"+cls, 1)
	// non-trivial: the trailer check alone cannot refuse the prefix (it ends in PAR1), or the cut
	// lies in the footer/trailer or exactly at a page or row-group boundary
	endsInMagic := cut >= 4 && string(file[cut-4:cut]) == "PAR1"
	if endsInMagic {
		c.Out.Count("prefixes_ending_in_magic", 1)
	}
	c.Out.Distinct(id, endsInMagic || cls == "footer" || cls == "footer_length" || cls == "trailer_magic" || cls == "page_boundary" || cls == "between_row_groups")
	res := ReadAll(f.Shape, NewSource(file[:cut]), len(f.Recs)+5)
	bad := func(kind, detail string) {
		c.Out.Violate(Violation{Prop: "C11", Key: fmt.Sprintf("cut=%s;kind=%s", cls, kind), Case: id, Shape: f.Shape.Name,
			Detail: fmt.Sprintf("file %s truncated to %d of %d bytes (cut in %s): %s", f.ID, cut, len(file), cls, detail)})
	}
	switch {
	case res.Panic != nil:
		bad("panic", fmt.Sprintf("%v\n%s", res.Panic, clip(res.Stack)))
	case res.CtorErr != nil:
		c.Out.Count("rejected_by_constructor", 1)
		c.Out.SetAdd("rejection_messages", errClass(res.CtorErr))
	case res.Err != nil:
		c.Out.Count("rejected_during_iteration", 1)
		c.Out.SetAdd("rejection_messages", errClass(res.Err))
	default:
		bad("accepted", fmt.Sprintf("opened and iterated without any error, delivering %d rows (Rows()=%d)", len(res.Recs), res.Rows))
	}
}

func errClass(err error) string {
	s := err.Error()
	// strip numbers and names so that the set stays small
	var sb strings.Builder
	for _, r := range s {
		if r >= '0' && r <= '9' {
			continue
		}
		sb.WriteRune(r)
	}
	out := sb.String()
	if len(out) > 70 {
		out = out[:70]
	}
	return out
}

// runC11Large: larger files (tens of KiB): every cut in the last 4 KiB, every
// page/chunk boundary +-8 bytes, and a seeded sample of interior cuts.
func runC11Large(c *Ctx) {
	for _, sh := range c.SelShapes() {
		s := sh.Schema()
		for _, codec := range []int{0, 1, 2} {
			id0 := fmt.Sprintf("%s/%s/large", sh.Name, CodecNames[codec])
			if c.Only != "" && !strings.HasPrefix(c.Only, id0+"/") {
				continue
			}
			rng := Rng(c.Seed, "c11large/"+id0)
			recs := GenRecords(s, GenRandom, 400, rng, false)
			f := &ioFile{ID: id0, Shape: sh, Codec: codec, Page: 50, Recs: recs, Part: []int{150, 150, 100}, Kind: "large"}
			file, ok := f.write(c)
			if !ok {
				continue
			}
			pf, err := pqfile.Parse(file)
			if err != nil {
				continue
			}
			c.Out.Count("files", 1)
			cuts := map[int]bool{}
			for i := len(file) - 4096; i < len(file); i++ {
				if i >= 0 {
					cuts[i] = true
				}
			}
			for _, rg := range pf.RowGroups {
				for _, ch := range rg.Columns {
					pages, _ := pqfile.WalkChunk(file, ch.DataPageOffset, ch.TotalComp)
					for _, p := range pages {
						for d := -8; d <= 8; d++ {
							for _, b := range []int{p.Offset, p.Offset + p.HeaderLen} {
								if b+d >= 0 && b+d < len(file) {
									cuts[b+d] = true
								}
							}
						}
					}
				}
			}
			for i := 0; i < 1500; i++ {
				cuts[rng.Intn(len(file))] = true
			}
			for cut := 0; cut < len(file); cut++ {
				if !cuts[cut] {
					continue
				}
				id := fmt.Sprintf("%s/cut=%d", id0, cut)
				if !c.Take(id) {
					continue
				}
				c.Out.Count("large_file_cuts", 1)
				checkPrefix(c, f, pf, file, cut, id)
			}
		}
	}
}

// runC11Trailer: many tiny files, only the cuts that remove 1..8 trailing
// bytes. A reader that trusts the four bytes it finds where the footer length
// should be — without checking the magic behind them — accepts a file cut
// before its trailing magic whenever the tail of the footer happens to look
// like a plausible length; whether that happens depends on the exact footer
// size, so the family varies row counts, row-group counts and codecs.
func runC11Trailer(c *Ctx) {
	rgMax := 6
	early := []int{1, 2, 3, 9, 70}
	if c.Thorough {
		rgMax = 12
		early = []int{1, 2, 3, 5, 9, 17, 33, 70, 129, 300}
	}
	for _, sh := range c.SelShapes() {
		s := sh.Schema()
		var counter uint64
		pool, _ := EnumStructures(s, lensSmall, 64, &counter)
		mk := func(id string, codec, g, e, r int) (*ioFile, []byte, *pqfile.File) {
			var recs []*dremel.Tree
			var part []int
			for i := 0; i < g-1; i++ {
				for j := 0; j < e; j++ {
					recs = append(recs, pool[(i+j)%len(pool)])
				}
				part = append(part, e)
			}
			for i := 0; i < r; i++ {
				recs = append(recs, pool[(i+g)%len(pool)])
			}
			part = append(part, r)
			f := &ioFile{ID: id, Shape: sh, Codec: codec, Page: 1000, Recs: recs, Part: part, Kind: "trailer"}
			file, ok := f.write(c)
			if !ok {
				return nil, nil, nil
			}
			pf, err := pqfile.Parse(file)
			if err != nil {
				return nil, nil, nil
			}
			return f, file, pf
		}
		for _, codec := range []int{0, 1, 2} {
			for g := 1; g <= rgMax; g++ {
				for _, e := range early {
					if g == 1 && e != early[0] {
						continue
					}
					id0 := fmt.Sprintf("%s/%s/trailer/g=%d/e=%d", sh.Name, CodecNames[codec], g, e)
					if !c.Take(id0 + "/") {
						continue
					}
					// The size of the footer hardly depends on the number of rows r of the last row
					// group, while the last four footer bytes are "16 <2r> 00 00" for r < 64: probe with
					// r = 1, then write the file again with the r for which those bytes, read as a
					// little-endian length, come closest to a length that fits the file.
					f, file, pf := mk(id0+"/r=1", codec, g, e, 1)
					if f == nil {
						continue
					}
					rs := []int{1}
					if cand := (pf.FooterLen - 26 + 256) / 512; cand >= 2 && cand < 64 {
						rs = append(rs, cand)
					}
					for _, r := range rs {
						if r != 1 {
							f, file, pf = mk(fmt.Sprintf("%s/r=%d", id0, r), codec, g, e, r)
							if f == nil {
								continue
							}
						}
						c.Out.Count("trailer_files", 1)
						tail := int(file[len(file)-12]) | int(file[len(file)-11])<<8 | int(file[len(file)-10])<<16 | int(file[len(file)-9])<<24
						if tail == pf.FooterLen-4 {
							c.Out.Count("trailer_files_whose_footer_tail_looks_like_a_length", 1)
						}
						c.Out.Max("trailer_closest_miss_bytes_inverted", int64(100000-abs(tail-(pf.FooterLen-4))))
						for k := 1; k <= 8; k++ {
							cut := len(file) - k
							checkPrefix(c, f, pf, file, cut, fmt.Sprintf("%s/cut=%d", f.ID, cut))
						}
					}
				}
			}
		}
	}
}

func abs(x int) int {
	if x < 0 {
		return -x
	}
	return x
}

// runC11Resonant: valid files from the reference writer whose footer ends in
// a created_by string chosen so that the last four footer bytes, read as a
// little-endian integer, equal the footer length minus 4. Cutting off the
// trailing magic then leaves a file whose "footer length" field (really the
// end of the footer) points exactly at the footer start: only a reader that
// checks the trailing magic rejects it.
func runC11Resonant(c *Ctx) {
	for _, sh := range c.SelShapes() {
		id0 := sh.Name + "/resonant-footer"
		if c.Only != "" && !strings.HasPrefix(c.Only, id0+"/") {
			continue
		}
		sc := sh.Schema()
		var counter uint64
		pool, _ := EnumStructures(sc, lensSmall, 12, &counter)
		var file []byte
		var pf *pqfile.File
		for n := 0; n < 1500 && file == nil; n++ {
			for _, guess := range []int{0} {
				_ = guess
				// two passes: the first measures the footer length with a placeholder tail
				mkfile := func(tail []byte) ([]byte, *pqfile.File) {
					rgs, err := baseRowGroups(sc, pool, []int{len(pool)}, pqfile.CUncompressed)
					if err != nil {
						return nil, nil
					}
					cb := "verif reference writer " + strings.Repeat("x", n) + string(tail)
					b, err := pqfile.WriteFile(&sc.Root.Node, rgs, pqfile.WOptions{CreatedBy: cb})
					if err != nil {
						return nil, nil
					}
					p, err := pqfile.Parse(b)
					if err != nil {
						return nil, nil
					}
					return b, p
				}
				b, p := mkfile([]byte{'a', 'b', 0})
				if b == nil {
					break
				}
				want := p.FooterLen - 4
				t := []byte{byte(want), byte(want >> 8), byte(want >> 16)}
				if t[0] >= 0x80 || t[1] >= 0x80 || t[2] != 0 {
					continue // keep created_by valid UTF-8
				}
				b, p = mkfile(t)
				if b == nil {
					break
				}
				got := int(b[len(b)-12]) | int(b[len(b)-11])<<8 | int(b[len(b)-10])<<16 | int(b[len(b)-9])<<24
				if got == p.FooterLen-4 {
					file, pf = b, p
				}
			}
		}
		if file == nil {
			c.Out.Inconclusive("no resonant footer could be constructed for " + sh.Name)
			continue
		}
		// the complete file must be readable (it is valid)
		f := &ioFile{ID: id0, Shape: sh, Recs: pool, Kind: "resonant"}
		full := ReadAll(sh, NewSource(file), len(pool)+5)
		if full.Panic != nil || full.Reported() || CompareRecs(sc, pool, full.Recs) != "" {
			c.Out.Inconclusive(fmt.Sprintf("resonant file for %s does not read back in full (a C04 matter): ctor=%v err=%v", sh.Name, full.CtorErr, full.Err))
			continue
		}
		if c.Shard == 0 {
			c.Out.Count("resonant_footer_files", 1)
		}
		for k := 1; k <= 12; k++ {
			cut := len(file) - k
			id := fmt.Sprintf("%s/cut=%d", id0, cut)
			if !c.Take(id) {
				continue
			}
			c.Out.Count("resonant_footer_cuts", 1)
			checkPrefix(c, f, pf, file, cut, id)
		}
	}
}

// xlFiles: one page body larger than 1 MiB (big values), for the properties in
// which buffer-size thresholds matter.
func xlFiles(c *Ctx) []*ioFile {
	var out []*ioFile
	for _, sh := range c.SelShapes() {
		if sh.Name != "p8" {
			continue
		}
		s := sh.Schema()
		for _, codec := range []int{0, 1, 2} {
			id := fmt.Sprintf("%s/%s/xl-page/0", sh.Name, CodecNames[codec])
			rng := Rng(c.Seed, "iofile/"+id)
			var recs []*dremel.Tree
			for i := 0; i < 26; i++ {
				recs = append(recs, genTree(s, rngChooser{rng}, bigStrings{rng}, lensSmall))
			}
			out = append(out, &ioFile{ID: id, Shape: sh, Codec: codec, Page: 1000, Recs: recs, Part: []int{20, 6}, Kind: "xl"})
		}
	}
	return out
}

// bigStrings makes every string 48-70 KiB of incompressible bytes.
type bigStrings struct{ r *rand.Rand }

func (b bigStrings) Leaf(n *dremel.GNode) pqfile.Val {
	if n.Type == pqfile.TByteArray {
		return pqfile.Val{S: LongString(48*1024+b.r.Intn(22*1024), b.r.Int())}
	}
	return randomVals{b.r}.Leaf(n)
}

// prefixIsValidFile: the reference's verdict on whether a byte string is by
// itself a well-formed Parquet file (then a reader accepting it is right).
func prefixIsValidFile(b []byte) bool {
	pf, err := pqfile.Parse(b)
	if err != nil {
		return false
	}
	if _, err := pqfile.BuildTree(pf.Schema); err != nil {
		return false
	}
	for _, rg := range pf.RowGroups {
		for _, ch := range rg.Columns {
			ch := ch
			if !ch.HasMeta {
				return false
			}
			st := ChunkStart(&ch)
			if st < 4 || st+ch.TotalComp > int64(pf.FooterOff) {
				return false
			}
			if _, err := pqfile.WalkChunk(b, st, ch.TotalComp); err != nil {
				return false
			}
		}
	}
	return true
}

// runC11Embedded: files whose string VALUES contain the footer of a shorter
// version of the same file followed by trailer-like bytes (length words and
// magic in various arrangements). Every prefix is swept; a prefix that is by
// itself a valid file according to the reference is not judged (no reader can
// tell it from a complete file), every other prefix must be refused.
func runC11Embedded(c *Ctx) {
	le := func(n int) string { return string([]byte{byte(n), byte(n >> 8), byte(n >> 16), byte(n >> 24)}) }
	for _, sh := range c.SelShapes() {
		sc := sh.Schema()
		// a required top-level string column to carry the payload
		slot := -1
		for i, k := range sc.Root.Kids {
			if k.Leaf && k.Rep == pqfile.Required && k.Type == pqfile.TByteArray {
				slot = i
				break
			}
		}
		if slot < 0 {
			continue
		}
		var counter uint64
		pool, _ := EnumStructures(sc, lensSmall, 8, &counter)
		first := pool[:3]
		fa := &ioFile{ID: sh.Name + "/embedded/base", Shape: sh, Codec: 0, Page: 1000, Recs: first, Part: []int{3}}
		fileA, ok := fa.write(c)
		if !ok {
			continue
		}
		pa, err := pqfile.Parse(fileA)
		if err != nil {
			continue
		}
		F := string(fileA[pa.FooterOff : pa.FooterOff+pa.FooterLen])
		L := len(F)
		tails := map[string]string{
			"len+8,magic,len+8,junk": le(L+8) + "PAR1" + le(L+8) + "JUNK",
			"len,magic,junk":         le(L) + "PAR1" + "JUNKJUNK",
			"len+4,magic,len+4":      le(L+4) + "PAR1" + le(L+4),
			"magic,len,magic":        "PAR1" + le(L) + "PAR1",
			"len,len,magic,magic":    le(L) + le(L) + "PAR1" + "PAR1",
			"len+8,magic,len,magic":  le(L+8) + "PAR1" + le(L) + "PAR1",
			"len-4,magic":            le(L-4) + "PAR1",
			"len+12,junk,magic,len":  le(L+12) + "JUNK" + "PAR1" + le(L+12) + "XXXX",
		}
		names := make([]string, 0, len(tails))
		for k := range tails {
			names = append(names, k)
		}
		sort.Strings(names)
		// the complete tail (footer, its length, magic) of OTHER files of the same struct: one
		// with fewer and one with more rows than the first row group of the carrier. A prefix
		// ending there looks like a complete file whose footer does not describe the bytes
		// before it; the reference decides (it is not a valid file), the reader must refuse.
		for _, nrec := range []int{1, 2, 5} {
			if nrec > len(pool) {
				continue
			}
			fo := &ioFile{ID: sh.Name + "/embedded/other", Shape: sh, Codec: 0, Page: 1000, Recs: pool[:nrec], Part: []int{nrec}}
			if fb, ok := fo.write(c); ok {
				if po, err := pqfile.Parse(fb); err == nil {
					name := fmt.Sprintf("tail-of-a-%d-row-file", nrec)
					// not F + tail here: the whole trailer of the other file replaces them
					tails[name] = "\x00REPLACE\x00" + string(fb[po.FooterOff:])
					// and the whole other file
					tails[fmt.Sprintf("whole-%d-row-file", nrec)] = "\x00REPLACE\x00" + string(fb)
				}
			}
		}
		// a file of the same struct whose records have the carrier's first row group's structure
		// (same value counts per column) but EMPTY strings: every one of its chunks is at most as
		// large as the carrier's, some smaller
		{
			var shrunk []*dremel.Tree
			for _, r := range first {
				shrunk = append(shrunk, emptyStrings(cloneTree(r)))
			}
			fo := &ioFile{ID: sh.Name + "/embedded/shrunk", Shape: sh, Codec: 0, Page: 1000, Recs: shrunk, Part: []int{len(shrunk)}}
			if fb, ok := fo.write(c); ok {
				if po, err := pqfile.Parse(fb); err == nil {
					tails["tail-of-a-file-with-equal-counts-and-smaller-chunks"] = "\x00REPLACE\x00" + string(fb[po.FooterOff:])
					tails["whole-file-with-equal-counts-and-smaller-chunks"] = "\x00REPLACE\x00" + string(fb)
				}
			}
		}
		// footers of the same struct, written by the reference writer, whose numbers are hostile:
		// a negative or absurdly large total_compressed_size / num_values in the first chunk (a
		// prefix ending there must be refused with an error, not with a panic or an allocation
		// sized by the footer)
		for _, hv := range []struct {
			name  string
			total int64
			nv    int64
		}{{"total-compressed-size-minus-1", -1, 0}, {"total-compressed-size-2^40", 1 << 40, 0}, {"total-compressed-size-min-int64", -1 << 63, 0}, {"num-values-minus-1", 0, -1}} {
			hv := hv
			var oc uint64
			opool, _ := EnumStructures(sc, lensSmall, 3, &oc)
			fb, _, err := BuildForeign(sc, opool, []int{len(opool)}, Rng(c.Seed, "c11hostile/"+sh.Name), func(gi, ci int, ch *pqfile.WChunk) {
				if gi == 0 && ci == 0 {
					if hv.total != 0 {
						ch.LieTotalComp = &hv.total
					}
					if hv.nv != 0 {
						ch.LieNumValues = &hv.nv
					}
				}
			})
			if err != nil {
				continue
			}
			tails["hostile-footer-"+hv.name] = "\x00REPLACE\x00" + string(fb)
			if c.Shard == 0 {
				c.Out.Count("embedded_hostile_footers", 1)
			}
		}
		// the tail and the whole body of a file of ANOTHER struct (no column in common with this
		// one's): a prefix ending there carries a footer in which the reading struct finds none of
		// its columns
		shs := c.SelShapes()
		for oi, osh := range shs {
			if osh != sh {
				continue
			}
			other := shs[(oi+1)%len(shs)]
			if other == sh {
				break
			}
			var oc uint64
			opool, _ := EnumStructures(other.Schema(), lensSmall, 3, &oc)
			fo := &ioFile{ID: sh.Name + "/embedded/other-struct", Shape: other, Codec: 0, Page: 1000, Recs: opool, Part: []int{len(opool)}}
			if fb, ok := fo.write(c); ok {
				if po, err := pqfile.Parse(fb); err == nil {
					tails["tail-of-a-file-of-struct-"+other.Name] = "\x00REPLACE\x00" + string(fb[po.FooterOff:])
					tails["whole-file-of-struct-"+other.Name] = "\x00REPLACE\x00" + string(fb)
					if c.Shard == 0 {
						c.Out.Count("embedded_files_of_another_struct", 1)
					}
				}
			}
		}
		names = names[:0]
		for k := range tails {
			names = append(names, k)
		}
		sort.Strings(names)
		for _, tn := range names {
			id0 := fmt.Sprintf("%s/embedded/%s", sh.Name, tn)
			if c.Only != "" && !strings.HasPrefix(c.Only, id0+"/") {
				continue
			}
			// second row group: a record whose string column holds footer + tail
			carrier := cloneTree(pool[3])
			payload := F + tails[tn]
			if strings.HasPrefix(tails[tn], "\x00REPLACE\x00") {
				payload = strings.TrimPrefix(tails[tn], "\x00REPLACE\x00")
			}
			carrier.Kids[slot] = &dremel.Tree{IsLeaf: true, V: pqfile.Val{S: payload}}
			recs := append(append([]*dremel.Tree{}, first...), carrier, pool[4])
			f := &ioFile{ID: id0, Shape: sh, Codec: 0, Page: 1000, Recs: recs, Part: []int{3, 2}, Kind: "embedded"}
			file, ok := f.write(c)
			if !ok {
				continue
			}
			pf, err := pqfile.Parse(file)
			if err != nil {
				continue
			}
			if c.Shard == 0 {
				c.Out.Count("embedded_footer_files", 1)
			}
			for cut := 0; cut < len(file); cut++ {
				id := fmt.Sprintf("%s/cut=%d", id0, cut)
				if !c.Take(id) {
					continue
				}
				if prefixIsValidFile(file[:cut]) {
					c.Out.Count("embedded_prefixes_that_are_valid_files_by_themselves", 1)
					continue
				}
				c.Out.Count("embedded_footer_cuts", 1)
				checkPrefix(c, f, pf, file, cut, id)
			}
		}
	}
}

// emptyStrings replaces every string value of the record by "".
func emptyStrings(t *dremel.Tree) *dremel.Tree {
	if t == nil {
		return nil
	}
	if t.IsLeaf {
		t.V.S = ""
	}
	for _, k := range t.Kids {
		emptyStrings(k)
	}
	for _, k := range t.List {
		emptyStrings(k)
	}
	return t
}

func cloneTree(t *dremel.Tree) *dremel.Tree {
	if t == nil {
		return nil
	}
	o := *t
	o.Kids = nil
	o.List = nil
	for _, k := range t.Kids {
		o.Kids = append(o.Kids, cloneTree(k))
	}
	for _, k := range t.List {
		o.List = append(o.List, cloneTree(k))
	}
	return &o
}

// runC11SelfFooter: files that contain THEIR OWN trailer (footer, footer length,
// magic) as the last bytes of their first and second of three row groups: the
// last column is a string whose last value in the row group is that trailer (a
// footer depends only on counts and sizes, so a fixpoint on the value's length
// exists). The prefix that ends right after such a row group passes every check
// of the trailer and its footer describes row groups that are not there; the cut
// falls exactly where the next page header would start. Every prefix is swept.
func runC11SelfFooter(c *Ctx) {
	for _, sh := range c.SelShapes() {
		sc := sh.Schema()
		slot := len(sc.Root.Kids) - 1
		if slot < 0 {
			continue
		}
		last := sc.Root.Kids[slot]
		if !last.Leaf || last.Type != pqfile.TByteArray || last.Rep == pqfile.Repeated {
			continue
		}
		var counter uint64
		pool, _ := EnumStructures(sc, lensSmall, 9, &counter)
		if len(pool) < 9 {
			continue
		}
		id0 := sh.Name + "/self-footer"
		if c.Only != "" && !strings.HasPrefix(c.Only, id0+"/") {
			continue
		}
		build := func(payload string) ([]byte, *pqfile.File, *ioFile) {
			recs := make([]*dremel.Tree, 9)
			for i := range recs {
				recs[i] = cloneTree(pool[i])
			}
			for _, i := range []int{2, 5} {
				recs[i].Kids[slot] = &dremel.Tree{IsLeaf: true, V: pqfile.Val{S: payload}}
			}
			f := &ioFile{ID: id0, Shape: sh, Codec: 0, Page: 1000, Recs: recs, Part: []int{3, 3, 3}, Kind: "self-footer"}
			file, ok := f.write(c)
			if !ok {
				return nil, nil, nil
			}
			pf, err := pqfile.Parse(file)
			if err != nil {
				return nil, nil, nil
			}
			return file, pf, f
		}
		// fixpoint on the length, then on the content
		payload := strings.Repeat("\x00", 64)
		var file []byte
		var pf *pqfile.File
		var f *ioFile
		fixed := false
		for it := 0; it < 12; it++ {
			file, pf, f = build(payload)
			if file == nil {
				break
			}
			tail := string(file[pf.FooterOff:])
			if tail == payload {
				fixed = true
				break
			}
			payload = tail
		}
		if !fixed {
			if c.Shard == 0 {
				c.Out.Count("self_footer_no_fixpoint", 1)
			}
			continue
		}
		// the row groups must really end with the trailer
		ends := 0
		for gi := 1; gi < len(pf.RowGroups); gi++ {
			e := int(pf.RowGroups[gi].Columns[0].DataPageOffset)
			if e >= len(payload) && string(file[e-len(payload):e]) == payload {
				ends++
			}
		}
		if c.Shard == 0 {
			c.Out.Count("self_footer_files", 1)
			c.Out.Count("self_footer_row_groups_ending_in_own_trailer", int64(ends))
			c.Out.Sample(map[string]interface{}{"file": id0, "bytes": len(file), "trailer_bytes": len(payload), "row_groups_ending_in_the_files_own_trailer": ends})
		}
		for cut := 0; cut < len(file); cut++ {
			id := fmt.Sprintf("%s/cut=%d", id0, cut)
			if !c.Take(id) {
				continue
			}
			if prefixIsValidFile(file[:cut]) {
				c.Out.Count("embedded_prefixes_that_are_valid_files_by_themselves", 1)
				continue
			}
			c.Out.Count("self_footer_cuts", 1)
			checkPrefix(c, f, pf, file, cut, id)
		}
	}
}

// runC11AfterEmpty: the shortest truncations (0..12 bytes — what a writer that crashed right
// after its first write leaves behind — and every prefix of a zero-row file), each read right
// after a VALID file without row groups has been read in the same process: whatever memory
// the earlier read left behind must not complete the missing tail.
func runC11AfterEmpty(c *Ctx) {
	for _, sh := range c.SelShapes() {
		id0 := sh.Name + "/after-empty"
		if c.Only != "" && !strings.HasPrefix(c.Only, id0+"/") {
			continue
		}
		empty := &ioFile{ID: id0 + "/empty", Shape: sh, Codec: 1, Page: 1000, Recs: nil, Part: nil, Kind: "empty"}
		fe, ok := empty.write(c)
		if !ok || len(fe) < 12 {
			continue
		}
		pe, err := pqfile.Parse(fe)
		if err != nil {
			continue
		}
		var counter uint64
		pool, _ := EnumStructures(sh.Schema(), lensSmall, 4, &counter)
		full := &ioFile{ID: id0 + "/small", Shape: sh, Codec: 0, Page: 1000, Recs: pool, Part: []int{len(pool)}, Kind: "small"}
		ff, ok := full.write(c)
		if !ok {
			continue
		}
		pf, err := pqfile.Parse(ff)
		if err != nil {
			continue
		}
		type tgt struct {
			f    *ioFile
			p    *pqfile.File
			file []byte
			max  int
		}
		for _, t := range []tgt{{empty, pe, fe, len(fe)}, {full, pf, ff, 13}} {
			for cut := 0; cut < t.max && cut < len(t.file); cut++ {
				id := fmt.Sprintf("%s/%s/cut=%d", id0, t.f.Kind, cut)
				if !c.Take(id) {
					continue
				}
				// the valid empty file first: must read as zero rows without error
				warm := ReadAll(sh, NewSource(fe), 5)
				if warm.Panic != nil || warm.Reported() || len(warm.Recs) != 0 {
					c.Out.Inconclusive(fmt.Sprintf("the zero-row file of %s does not read back as an empty file (a C06/C16 matter)", sh.Name))
					return
				}
				c.Out.Count("prefixes_read_right_after_a_valid_empty_file", 1)
				checkPrefix(c, t.f, t.p, t.file, cut, id)
			}
		}
	}
}
