package dremel

import (
	"reflect"
	"testing"

	"github.com/parsyl/parquet/verifkit/ref/pqfile"
)

// The schema and the two records of the Dremel paper (fig. 2), and the column
// tables printed in fig. 3.
type Links struct {
	Backward []int64
	Forward  []int64
}
type Language struct {
	Code    string
	Country *string
}
type Name struct {
	Language []Language
	Url      *string
}
type Document struct {
	DocId int64
	Links *Links
	Name  []Name
}

func ps(s string) *string { return &s }

type e struct {
	r, d int
	v    interface{}
}

func TestPaper(t *testing.T) {
	r1 := Document{DocId: 10, Links: &Links{Forward: []int64{20, 40, 60}},
		Name: []Name{
			{Language: []Language{{Code: "en-us", Country: ps("us")}, {Code: "en"}}, Url: ps("http://A")},
			{Url: ps("http://B")},
			{Language: []Language{{Code: "en-gb", Country: ps("gb")}}},
		}}
	r2 := Document{DocId: 20, Links: &Links{Backward: []int64{10, 30}, Forward: []int64{80}},
		Name: []Name{{Url: ps("http://C")}}}
	s, err := SchemaOf(reflect.TypeOf(Document{}))
	if err != nil {
		t.Fatal(err)
	}
	want := map[string][]e{
		"DocId":                 {{0, 0, int64(10)}, {0, 0, int64(20)}},
		"Name.Url":              {{0, 2, "http://A"}, {1, 2, "http://B"}, {1, 1, nil}, {0, 2, "http://C"}},
		"Links.Forward":         {{0, 2, int64(20)}, {1, 2, int64(40)}, {1, 2, int64(60)}, {0, 2, int64(80)}},
		"Links.Backward":        {{0, 1, nil}, {0, 2, int64(10)}, {1, 2, int64(30)}},
		"Name.Language.Code":    {{0, 2, "en-us"}, {2, 2, "en"}, {1, 1, nil}, {1, 2, "en-gb"}, {0, 1, nil}},
		"Name.Language.Country": {{0, 3, "us"}, {2, 2, nil}, {1, 1, nil}, {1, 3, "gb"}, {0, 1, nil}},
	}
	t1 := s.FromGo(reflect.ValueOf(r1))
	t2 := s.FromGo(reflect.ValueOf(r2))
	c1 := s.Shred(t1)
	c2 := s.Shred(t2)
	for i, leaf := range s.Leaves {
		name := ""
		for j, p := range leaf.Path {
			if j > 0 {
				name += "."
			}
			name += p
		}
		got := append(append([]Triple{}, c1[i]...), c2[i]...)
		w := want[name]
		if len(got) != len(w) {
			t.Fatalf("%s: got %v want %v", name, got, w)
		}
		for k := range w {
			var wv pqfile.Val
			has := w[k].v != nil
			switch x := w[k].v.(type) {
			case int64:
				wv.U = uint64(x)
			case string:
				wv.S = x
			}
			if int(got[k].Rep) != w[k].r || int(got[k].Def) != w[k].d || got[k].HasVal != has || got[k].V != wv {
				t.Errorf("%s[%d]: got %v want %v", name, k, got[k], w[k])
			}
		}
	}
	for _, p := range []struct {
		c [][]Triple
		t *Tree
		g interface{}
	}{{c1, t1, r1}, {c2, t2, r2}} {
		back, err := s.AssembleRecord(p.c)
		if err != nil {
			t.Fatal(err)
		}
		if !Equal(back, p.t) {
			t.Errorf("assemble: got %s want %s", s.Render(back), s.Render(p.t))
		}
		g := s.ToGo(back).Interface()
		if !reflect.DeepEqual(g, p.g) {
			t.Errorf("ToGo: got %+v want %+v", g, p.g)
		}
	}
	// sibling disagreement must be detected
	bad := [][]Triple{c1[0], c1[1], c1[2], c1[3], c1[4], c1[5]}
	for i, leaf := range s.Leaves {
		if leaf.Name == "Url" {
			bad[i] = bad[i][:2] // Name has 3 elements according to the others
		}
	}
	if _, err := s.AssembleRecord(bad); err == nil {
		t.Error("sibling disagreement not detected")
	}
}
