// Package dremel is a reference implementation of record shredding and
// assembly as described in the Dremel paper (Melnik et al., VLDB 2010, §4.1,
// §4.3) for the nested schemas parquetgen documents: required / optional
// (pointer) / repeated (slice) leaves and groups. It is written in the most
// direct recursive style and shares no code with the repository under test.
//
// Records are handled as schema-shaped generic trees (Tree), so that records
// of different Go types with the same columns can be compared.
package dremel

import (
	"fmt"
	"math"
	"reflect"
	"strings"

	"github.com/parsyl/parquet/verifkit/ref/pqfile"
)

// GNode is a schema node together with how to reach it in a Go struct.
type GNode struct {
	pqfile.Node
	Kids   []*GNode
	Index  []int        // reflect field index path from the parent group's struct
	GoType reflect.Type // Go type of the field as declared (incl. pointer/slice)
	Elem   reflect.Type // type after stripping one pointer or slice layer
	Level  int          // repetition level of this node if repeated
}

// Excluded describes a struct field that must not reach the file.
type Excluded struct {
	Owner reflect.Type
	Index []int
}

// Schema is the expected Parquet schema of a Go struct type under the
// README's rules.
type Schema struct {
	Root     *GNode
	Leaves   []*GNode
	Excluded []Excluded
	Type     reflect.Type
}

var primTypes = map[reflect.Kind]int32{
	reflect.Int32:   pqfile.TInt32,
	reflect.Uint32:  pqfile.TInt32,
	reflect.Int64:   pqfile.TInt64,
	reflect.Uint64:  pqfile.TInt64,
	reflect.Float32: pqfile.TFloat,
	reflect.Float64: pqfile.TDouble,
	reflect.Bool:    pqfile.TBoolean,
	reflect.String:  pqfile.TByteArray,
}

// SchemaOf derives the schema of struct type t.
func SchemaOf(t reflect.Type) (*Schema, error) {
	if t.Kind() != reflect.Struct {
		return nil, fmt.Errorf("%v is not a struct", t)
	}
	s := &Schema{Type: t}
	root := &GNode{Node: pqfile.Node{Name: "root"}}
	if err := s.fill(root, t, nil); err != nil {
		return nil, err
	}
	s.Root = root
	var walk func(n *GNode)
	walk = func(n *GNode) {
		if n.Leaf {
			s.Leaves = append(s.Leaves, n)
		}
		for _, k := range n.Kids {
			walk(k)
		}
	}
	walk(root)
	return s, nil
}

func columnName(f reflect.StructField) (string, bool) {
	tag, ok := f.Tag.Lookup("parquet")
	if ok {
		if tag == "-" {
			return "", false
		}
		if tag != "" {
			return tag, true
		}
	}
	return f.Name, true
}

func (s *Schema) fill(parent *GNode, t reflect.Type, prefix []int) error {
	for i := 0; i < t.NumField(); i++ {
		f := t.Field(i)
		idx := append(append([]int{}, prefix...), i)
		if f.Anonymous && f.Type.Kind() == reflect.Struct {
			if _, ok := columnName(f); !ok || !f.IsExported() {
				// an embedded struct tagged parquet:"-", or one whose type name is unexported (the
				// field it declares is unexported), is an excluded field like any other
				s.Excluded = append(s.Excluded, Excluded{Owner: t, Index: []int{i}})
				continue
			}
			// embedding == inlining (the embedded type's own name may be
			// lower-case; Go still promotes its exported fields)
			if err := s.fill(parent, f.Type, idx); err != nil {
				return err
			}
			continue
		}
		if !f.IsExported() {
			s.Excluded = append(s.Excluded, Excluded{Owner: t, Index: []int{i}})
			continue
		}
		name, ok := columnName(f)
		if !ok {
			s.Excluded = append(s.Excluded, Excluded{Owner: t, Index: []int{i}})
			continue
		}
		n := &GNode{Index: idx, GoType: f.Type}
		n.Name = name
		ft := f.Type
		switch ft.Kind() {
		case reflect.Ptr:
			n.Rep = pqfile.Optional
			ft = ft.Elem()
		case reflect.Slice:
			n.Rep = pqfile.Repeated
			ft = ft.Elem()
		default:
			n.Rep = pqfile.Required
		}
		n.Elem = ft
		n.Path = append(append([]string{}, parent.Path...), name)
		n.Reps = append(append([]int32{}, parent.Reps...), n.Rep)
		n.MaxDef, n.MaxRep = parent.MaxDef, parent.MaxRep
		if n.Rep != pqfile.Required {
			n.MaxDef++
		}
		if n.Rep == pqfile.Repeated {
			n.MaxRep++
			n.Level = n.MaxRep
		}
		if pt, ok := primTypes[ft.Kind()]; ok {
			n.Leaf = true
			n.Type = pt
			switch ft.Kind() {
			case reflect.Uint32:
				c := int32(pqfile.CTUint32)
				n.Converted = &c
			case reflect.Uint64:
				c := int32(pqfile.CTUint64)
				n.Converted = &c
			}
		} else if ft.Kind() == reflect.Struct {
			if err := s.fill(n, ft, nil); err != nil {
				return err
			}
		} else {
			return fmt.Errorf("field %s.%s has unsupported type %v", t, f.Name, f.Type)
		}
		parent.Kids = append(parent.Kids, n)
		parent.Children = append(parent.Children, &n.Node)
	}
	return nil
}

// Tree is a generic record (or sub-record) shaped by the schema.
//
// For a node with repetition Required the Tree is the content; Optional: Null
// or content; Repeated: List of contents. Content of a group is Kids (schema
// order), of a leaf is V.
type Tree struct {
	Null   bool
	IsList bool
	List   []*Tree
	Kids   []*Tree
	V      pqfile.Val
	IsLeaf bool
}

func leafVal(v reflect.Value) pqfile.Val {
	switch v.Kind() {
	case reflect.Int32:
		return pqfile.Val{U: uint64(uint32(v.Int()))}
	case reflect.Int64:
		return pqfile.Val{U: uint64(v.Int())}
	case reflect.Uint32, reflect.Uint64:
		return pqfile.Val{U: v.Uint()}
	case reflect.Float32:
		// v.Float() widens; go through the interface to keep the exact bits
		return pqfile.Val{U: uint64(math.Float32bits(v.Interface().(float32)))}
	case reflect.Float64:
		return pqfile.Val{U: math.Float64bits(v.Float())}
	case reflect.Bool:
		if v.Bool() {
			return pqfile.Val{U: 1}
		}
		return pqfile.Val{}
	case reflect.String:
		return pqfile.Val{S: v.String()}
	}
	panic("leafVal: " + v.Kind().String())
}

func setLeaf(dst reflect.Value, v pqfile.Val) {
	switch dst.Kind() {
	case reflect.Int32:
		dst.SetInt(int64(int32(uint32(v.U))))
	case reflect.Int64:
		dst.SetInt(int64(v.U))
	case reflect.Uint32:
		dst.SetUint(uint64(uint32(v.U)))
	case reflect.Uint64:
		dst.SetUint(v.U)
	case reflect.Float32:
		// SetFloat(float64(x)) would quiet signalling NaNs; set through a
		// typed pointer instead
		f := math.Float32frombits(uint32(v.U))
		*(dst.Addr().Interface().(*float32)) = f
	case reflect.Float64:
		*(dst.Addr().Interface().(*float64)) = math.Float64frombits(v.U)
	case reflect.Bool:
		dst.SetBool(v.U&1 == 1)
	case reflect.String:
		dst.SetString(v.S)
	default:
		panic("setLeaf: " + dst.Kind().String())
	}
}

// FromGo converts a Go record (struct value of s.Type) to a Tree.
func (s *Schema) FromGo(v reflect.Value) *Tree {
	return groupFromGo(s.Root, v)
}

func groupFromGo(g *GNode, v reflect.Value) *Tree {
	t := &Tree{}
	for _, k := range g.Kids {
		t.Kids = append(t.Kids, nodeFromGo(k, v.FieldByIndex(k.Index)))
	}
	return t
}

func contentFromGo(n *GNode, v reflect.Value) *Tree {
	if n.Leaf {
		return &Tree{IsLeaf: true, V: leafVal(v)}
	}
	return groupFromGo(n, v)
}

func nodeFromGo(n *GNode, fv reflect.Value) *Tree {
	switch n.Rep {
	case pqfile.Optional:
		if fv.IsNil() {
			return &Tree{Null: true}
		}
		return contentFromGo(n, fv.Elem())
	case pqfile.Repeated:
		t := &Tree{IsList: true}
		for i := 0; i < fv.Len(); i++ {
			t.List = append(t.List, contentFromGo(n, fv.Index(i)))
		}
		return t
	}
	return contentFromGo(n, fv)
}

// ToGo builds a Go value of s.Type from a Tree. Excluded fields stay zero.
func (s *Schema) ToGo(t *Tree) reflect.Value {
	v := reflect.New(s.Type).Elem()
	groupToGo(s.Root, t, v)
	return v
}

func groupToGo(g *GNode, t *Tree, v reflect.Value) {
	for i, k := range g.Kids {
		nodeToGo(k, t.Kids[i], v.FieldByIndex(k.Index))
	}
}

func contentToGo(n *GNode, t *Tree, dst reflect.Value) {
	if n.Leaf {
		setLeaf(dst, t.V)
		return
	}
	groupToGo(n, t, dst)
}

func nodeToGo(n *GNode, t *Tree, fv reflect.Value) {
	switch n.Rep {
	case pqfile.Optional:
		if t.Null {
			return
		}
		p := reflect.New(n.Elem)
		contentToGo(n, t, p.Elem())
		fv.Set(p)
	case pqfile.Repeated:
		if len(t.List) == 0 {
			return
		}
		sl := reflect.MakeSlice(n.GoType, len(t.List), len(t.List))
		for i, e := range t.List {
			contentToGo(n, e, sl.Index(i))
		}
		fv.Set(sl)
	default:
		contentToGo(n, t, fv)
	}
}

// Equal compares two trees (nil slice == empty slice by construction).
func Equal(a, b *Tree) bool {
	if a == nil || b == nil {
		return a == b
	}
	if a.Null != b.Null || a.IsList != b.IsList || a.IsLeaf != b.IsLeaf {
		return false
	}
	if a.IsLeaf && a.V != b.V {
		return false
	}
	if len(a.List) != len(b.List) || len(a.Kids) != len(b.Kids) {
		return false
	}
	for i := range a.List {
		if !Equal(a.List[i], b.List[i]) {
			return false
		}
	}
	for i := range a.Kids {
		if !Equal(a.Kids[i], b.Kids[i]) {
			return false
		}
	}
	return true
}

// Render prints a tree with column names.
func (s *Schema) Render(t *Tree) string {
	var sb strings.Builder
	renderGroup(&sb, s.Root, t)
	return sb.String()
}

func renderVal(n *GNode, v pqfile.Val) string {
	switch n.Type {
	case pqfile.TByteArray:
		if len(v.S) > 40 {
			return fmt.Sprintf("%q…(%d bytes)", v.S[:40], len(v.S))
		}
		return fmt.Sprintf("%q", v.S)
	case pqfile.TFloat, pqfile.TDouble:
		return fmt.Sprintf("0x%x", v.U)
	}
	if n.Elem != nil {
		switch n.Elem.Kind() {
		case reflect.Int32:
			return fmt.Sprintf("%d", int32(uint32(v.U)))
		case reflect.Uint32, reflect.Uint64:
			return fmt.Sprintf("%d", v.U)
		}
	}
	return fmt.Sprintf("%d", int64(v.U))
}

func renderGroup(sb *strings.Builder, g *GNode, t *Tree) {
	sb.WriteString("{")
	for i, k := range g.Kids {
		if i > 0 {
			sb.WriteString(" ")
		}
		sb.WriteString(k.Name + ":")
		renderNode(sb, k, t.Kids[i])
	}
	sb.WriteString("}")
}

func renderContent(sb *strings.Builder, n *GNode, t *Tree) {
	if n.Leaf {
		sb.WriteString(renderVal(n, t.V))
		return
	}
	renderGroup(sb, n, t)
}

func renderNode(sb *strings.Builder, n *GNode, t *Tree) {
	switch {
	case n.Rep == pqfile.Optional && t.Null:
		sb.WriteString("nil")
	case n.Rep == pqfile.Repeated:
		sb.WriteString("[")
		for i, e := range t.List {
			if i > 0 {
				sb.WriteString(",")
			}
			renderContent(sb, n, e)
		}
		sb.WriteString("]")
	default:
		renderContent(sb, n, t)
	}
}

// Triple is one column entry.
type Triple struct {
	Rep, Def uint8
	HasVal   bool
	V        pqfile.Val
}

func (t Triple) String() string {
	if t.HasVal {
		return fmt.Sprintf("(r%d d%d %v)", t.Rep, t.Def, t.V)
	}
	return fmt.Sprintf("(r%d d%d -)", t.Rep, t.Def)
}

// Shred stripes one record into per-leaf triples (Dremel §4.1, fig. 3).
func (s *Schema) Shred(rec *Tree) [][]Triple {
	out := make([][]Triple, len(s.Leaves))
	// Column-at-a-time is simpler and obviously right: for each leaf walk the
	// record along that leaf's path only.
	for ci, leaf := range s.Leaves {
		path := s.pathTo(leaf)
		var walk func(i int, t *Tree, r, d int)
		walk = func(i int, t *Tree, r, d int) {
			// t is the Tree of path[i] (as stored in its parent), not yet
			// unwrapped for repetition.
			n := path[i]
			content := func(c *Tree, r, d int) {
				if i == len(path)-1 {
					out[ci] = append(out[ci], Triple{Rep: uint8(r), Def: uint8(d), HasVal: true, V: c.V})
					return
				}
				next := path[i+1]
				walk(i+1, c.Kids[kidIndex(n, next)], r, d)
			}
			switch n.Rep {
			case pqfile.Required:
				content(t, r, d)
			case pqfile.Optional:
				if t.Null {
					out[ci] = append(out[ci], Triple{Rep: uint8(r), Def: uint8(d)})
				} else {
					content(t, r, d+1)
				}
			case pqfile.Repeated:
				if len(t.List) == 0 {
					out[ci] = append(out[ci], Triple{Rep: uint8(r), Def: uint8(d)})
				} else {
					for j, e := range t.List {
						rr := r
						if j > 0 {
							rr = n.Level
						}
						content(e, rr, d+1)
					}
				}
			}
		}
		walk(0, rec.Kids[kidIndex(s.Root, path[0])], 0, 0)
	}
	return out
}

func kidIndex(parent, kid *GNode) int {
	for i, k := range parent.Kids {
		if k == kid {
			return i
		}
	}
	panic("kidIndex: not a child")
}

func (s *Schema) pathTo(leaf *GNode) []*GNode {
	var out []*GNode
	var rec func(n *GNode, acc []*GNode) bool
	rec = func(n *GNode, acc []*GNode) bool {
		if n == leaf {
			out = append([]*GNode{}, acc...)
			return true
		}
		for _, k := range n.Kids {
			if rec(k, append(acc, k)) {
				return true
			}
		}
		return false
	}
	rec(s.Root, nil)
	return out
}

// SplitRecords cuts a column's triples at repetition level 0.
func SplitRecords(ts []Triple) ([][]Triple, error) {
	var out [][]Triple
	for i, t := range ts {
		if t.Rep == 0 {
			out = append(out, nil)
		} else if i == 0 {
			return nil, fmt.Errorf("column does not start at a record boundary (rep %d)", t.Rep)
		}
		out[len(out)-1] = append(out[len(out)-1], t)
	}
	return out, nil
}

// ptree is the structure one column implies along its own path.
type ptree struct {
	null   bool
	isList bool
	list   []*ptree
	next   *ptree
	val    pqfile.Val
	isVal  bool
}

func (s *Schema) columnTree(leaf *GNode, ts []Triple) (*ptree, error) {
	path := s.pathTo(leaf)
	var parse func(i int, es []Triple, d0 int) (*ptree, error)
	parse = func(i int, es []Triple, d0 int) (*ptree, error) {
		if len(es) == 0 {
			return nil, fmt.Errorf("column %s: no entry for an instance of %s", strings.Join(leaf.Path, "."), path[i].Name)
		}
		n := path[i]
		content := func(es []Triple, d int) (*ptree, error) {
			if i == len(path)-1 {
				if len(es) != 1 {
					return nil, fmt.Errorf("column %s: %d entries where one value is expected", strings.Join(leaf.Path, "."), len(es))
				}
				if !es[0].HasVal || int(es[0].Def) != leaf.MaxDef {
					return nil, fmt.Errorf("column %s: entry %v is not a full-depth value", strings.Join(leaf.Path, "."), es[0])
				}
				return &ptree{isVal: true, val: es[0].V}, nil
			}
			return parse(i+1, es, d)
		}
		switch n.Rep {
		case pqfile.Required:
			nx, err := content(es, d0)
			if err != nil {
				return nil, err
			}
			return &ptree{next: nx}, nil
		case pqfile.Optional:
			if int(es[0].Def) < d0 {
				return nil, fmt.Errorf("column %s: def %d below the %d already established", strings.Join(leaf.Path, "."), es[0].Def, d0)
			}
			if int(es[0].Def) == d0 {
				if len(es) != 1 || es[0].HasVal {
					return nil, fmt.Errorf("column %s: null %s with %d entries", strings.Join(leaf.Path, "."), n.Name, len(es))
				}
				return &ptree{null: true}, nil
			}
			nx, err := content(es, d0+1)
			if err != nil {
				return nil, err
			}
			return &ptree{next: nx}, nil
		default:
			if int(es[0].Def) < d0 {
				return nil, fmt.Errorf("column %s: def %d below the %d already established", strings.Join(leaf.Path, "."), es[0].Def, d0)
			}
			if int(es[0].Def) == d0 {
				if len(es) != 1 || es[0].HasVal {
					return nil, fmt.Errorf("column %s: empty list %s with %d entries", strings.Join(leaf.Path, "."), n.Name, len(es))
				}
				return &ptree{isList: true}, nil
			}
			out := &ptree{isList: true}
			start := 0
			for j := 1; j <= len(es); j++ {
				if j == len(es) || int(es[j].Rep) == n.Level {
					e, err := content(es[start:j], d0+1)
					if err != nil {
						return nil, err
					}
					out.list = append(out.list, e)
					start = j
				} else if int(es[j].Rep) < n.Level {
					return nil, fmt.Errorf("column %s: rep %d inside a list at level %d", strings.Join(leaf.Path, "."), es[j].Rep, n.Level)
				}
			}
			return out, nil
		}
	}
	return parse(0, ts, 0)
}

// AssembleRecord rebuilds one record from the per-leaf triples of that record
// and fails if the columns disagree about shared structure.
func (s *Schema) AssembleRecord(cols [][]Triple) (*Tree, error) {
	if len(cols) != len(s.Leaves) {
		return nil, fmt.Errorf("%d columns for %d leaves", len(cols), len(s.Leaves))
	}
	pts := map[*GNode]*ptree{}
	for i, leaf := range s.Leaves {
		pt, err := s.columnTree(leaf, cols[i])
		if err != nil {
			return nil, err
		}
		pts[leaf] = pt
	}
	return mergeGroup(s.Root, pts)
}

func leavesUnder(n *GNode) []*GNode {
	if n.Leaf {
		return []*GNode{n}
	}
	var out []*GNode
	for _, k := range n.Kids {
		out = append(out, leavesUnder(k)...)
	}
	return out
}

// mergeGroup: pts maps each leaf under g to the ptree positioned at the child
// of g on that leaf's path.
func mergeGroup(g *GNode, pts map[*GNode]*ptree) (*Tree, error) {
	t := &Tree{}
	for _, k := range g.Kids {
		kt, err := mergeNode(k, pts)
		if err != nil {
			return nil, err
		}
		t.Kids = append(t.Kids, kt)
	}
	return t, nil
}

func mergeNode(n *GNode, pts map[*GNode]*ptree) (*Tree, error) {
	ls := leavesUnder(n)
	first := pts[ls[0]]
	for _, l := range ls[1:] {
		p := pts[l]
		if p.null != first.null || p.isList != first.isList || len(p.list) != len(first.list) {
			return nil, fmt.Errorf("columns %s and %s disagree about %s (null %v/%v, length %d/%d)",
				strings.Join(ls[0].Path, "."), strings.Join(l.Path, "."), strings.Join(n.Path, "."),
				first.null, p.null, len(first.list), len(p.list))
		}
	}
	content := func(sel func(p *ptree) *ptree) (*Tree, error) {
		if n.Leaf {
			c := sel(first)
			return &Tree{IsLeaf: true, V: c.val}, nil
		}
		sub := map[*GNode]*ptree{}
		for _, l := range ls {
			sub[l] = sel(pts[l])
		}
		return mergeGroup(n, sub)
	}
	switch n.Rep {
	case pqfile.Optional:
		if first.null {
			return &Tree{Null: true}, nil
		}
		return content(func(p *ptree) *ptree { return p.next })
	case pqfile.Repeated:
		out := &Tree{IsList: true}
		for j := range first.list {
			j := j
			e, err := content(func(p *ptree) *ptree { return p.list[j] })
			if err != nil {
				return nil, err
			}
			out.List = append(out.List, e)
		}
		return out, nil
	}
	return content(func(p *ptree) *ptree { return p.next })
}

// Diff returns "" if a and b are equal, else the column path and values of
// the first difference.
func (s *Schema) Diff(a, b *Tree) string {
	return diffGroup(s.Root, a, b, "")
}

func diffGroup(g *GNode, a, b *Tree, where string) string {
	for i, k := range g.Kids {
		if d := diffNode(k, a.Kids[i], b.Kids[i], where+"."+k.Name); d != "" {
			return d
		}
	}
	return ""
}

func diffContent(n *GNode, a, b *Tree, where string) string {
	if n.Leaf {
		if a.V != b.V {
			return fmt.Sprintf("%s: %s vs %s", where, renderVal(n, a.V), renderVal(n, b.V))
		}
		return ""
	}
	return diffGroup(n, a, b, where)
}

func diffNode(n *GNode, a, b *Tree, where string) string {
	switch n.Rep {
	case pqfile.Optional:
		if a.Null != b.Null {
			return fmt.Sprintf("%s: nil=%v vs nil=%v", where, a.Null, b.Null)
		}
		if a.Null {
			return ""
		}
	case pqfile.Repeated:
		if len(a.List) != len(b.List) {
			return fmt.Sprintf("%s: %d elements vs %d elements", where, len(a.List), len(b.List))
		}
		for i := range a.List {
			if d := diffContent(n, a.List[i], b.List[i], fmt.Sprintf("%s[%d]", where, i)); d != "" {
				return d
			}
		}
		return ""
	}
	return diffContent(n, a, b, where)
}
