package thriftc

import (
	"bytes"
	"testing"
)

func TestSpecVectors(t *testing.T) {
	// compact protocol spec: zigzag 0→0, -1→1, 1→2, -2→3; varint 50399 = DF 89 03
	for i, w := range map[int64]uint64{0: 0, -1: 1, 1: 2, -2: 3, 2147483647: 4294967294, -2147483648: 4294967295} {
		if zig(i) != w || unzig(w) != i {
			t.Errorf("zigzag %d", i)
		}
	}
	e := &enc{}
	e.uvarint(50399)
	if !bytes.Equal(e.b, []byte{0xDF, 0x89, 0x03}) {
		t.Errorf("varint got %x", e.b)
	}
	// struct {1: i32 1, 2: binary "ab", 20: bool true, 21: list<i64>[1,-1]} by hand:
	// 15 02 | 18 02 61 62 | 01 28 (long form id 20: type 1, zigzag(20)=40=0x28) | 19 26 02 01 | 00
	want := []byte{0x15, 0x02, 0x18, 0x02, 'a', 'b', 0x01, 0x28, 0x19, 0x26, 0x02, 0x01, 0x00}
	v := Struct(F(1, I32(1)), F(2, Str("ab")), F(20, Bool(true)), F(21, List(KI64, I64(1), I64(-1))))
	got := EncodeStruct(v)
	if !bytes.Equal(got, want) {
		t.Fatalf("got %x want %x", got, want)
	}
	back, n, err := DecodeStruct(got)
	if err != nil || n != len(got) || Canon(back) != Canon(v) {
		t.Fatalf("decode: %v %d %s", err, n, Canon(back))
	}
	if _, _, err := DecodeStruct(got[:len(got)-1]); err == nil {
		t.Fatal("truncated struct accepted")
	}
}
