// Package thriftc is a generic (schema-less) codec for the Thrift compact
// protocol, written from the protocol specification
// (thrift/doc/specs/thrift-compact-protocol.md). It shares no code with
// github.com/apache/thrift or with the repository under test.
//
// A decoded struct is a list of (field id, value) pairs in wire order.
package thriftc

import (
	"encoding/binary"
	"errors"
	"fmt"
	"math"
)

// Kind is a compact-protocol wire type.
type Kind uint8

const (
	KStop   Kind = 0
	KTrue   Kind = 1 // field header only; in containers a bool is KTrue with a byte payload
	KFalse  Kind = 2
	KByte   Kind = 3
	KI16    Kind = 4
	KI32    Kind = 5
	KI64    Kind = 6
	KDouble Kind = 7
	KBinary Kind = 8
	KList   Kind = 9
	KSet    Kind = 10
	KMap    Kind = 11
	KStruct Kind = 12
)

// Value is one decoded thrift value.
type Value struct {
	Kind   Kind // KTrue for any bool (Bool holds the value)
	Bool   bool
	I      int64
	F      float64
	B      []byte
	Elem   Kind    // element kind of list/set
	L      []Value // list/set elements
	Fields []Field // struct fields in wire order
	KeyK   Kind    // map key kind
	ValK   Kind    // map value kind
	M      []KV
}

// Field is one struct field.
type Field struct {
	ID int16
	V  Value
	// LongForm forces the encoder to use the 3+ byte header (delta 0 followed
	// by a zigzag id) even when the short form would do. Both are legal.
	LongForm bool
}

// KV is one map entry.
type KV struct{ K, V Value }

// Get returns the first field with the given id, or nil.
func (v *Value) Get(id int16) *Value {
	if v == nil {
		return nil
	}
	for i := range v.Fields {
		if v.Fields[i].ID == id {
			return &v.Fields[i].V
		}
	}
	return nil
}

// Has reports whether a field is present.
func (v *Value) Has(id int16) bool { return v.Get(id) != nil }

// Int returns the integer value of field id (0 if absent).
func (v *Value) Int(id int16) int64 {
	f := v.Get(id)
	if f == nil {
		return 0
	}
	return f.I
}

// Str returns the binary value of field id as string.
func (v *Value) Str(id int16) string {
	f := v.Get(id)
	if f == nil {
		return ""
	}
	return string(f.B)
}

// List returns the elements of list field id.
func (v *Value) List(id int16) []Value {
	f := v.Get(id)
	if f == nil {
		return nil
	}
	return f.L
}

var (
	ErrTruncated = errors.New("thriftc: truncated input")
	ErrDepth     = errors.New("thriftc: nesting too deep")
)

type dec struct {
	b   []byte
	pos int
}

func (d *dec) byte() (byte, error) {
	if d.pos >= len(d.b) {
		return 0, ErrTruncated
	}
	c := d.b[d.pos]
	d.pos++
	return c, nil
}

func (d *dec) uvarint() (uint64, error) {
	var out uint64
	var shift uint
	for i := 0; i < 10; i++ {
		c, err := d.byte()
		if err != nil {
			return 0, err
		}
		out |= uint64(c&0x7f) << shift
		if c&0x80 == 0 {
			return out, nil
		}
		shift += 7
	}
	return 0, errors.New("thriftc: varint too long")
}

func unzig(u uint64) int64 { return int64(u>>1) ^ -int64(u&1) }
func zig(i int64) uint64   { return uint64(i<<1) ^ uint64(i>>63) }

// DecodeStruct decodes one struct from the start of b and returns it together
// with the number of bytes consumed.
func DecodeStruct(b []byte) (Value, int, error) {
	d := &dec{b: b}
	v, err := d.structure(0)
	return v, d.pos, err
}

func (d *dec) structure(depth int) (Value, error) {
	if depth > 64 {
		return Value{}, ErrDepth
	}
	out := Value{Kind: KStruct}
	var last int16
	for {
		h, err := d.byte()
		if err != nil {
			return out, err
		}
		if h == 0 {
			return out, nil
		}
		k := Kind(h & 0x0f)
		delta := int16(h >> 4)
		var id int16
		long := false
		if delta == 0 {
			u, err := d.uvarint()
			if err != nil {
				return out, err
			}
			id = int16(unzig(u))
			long = true
		} else {
			id = last + delta
		}
		last = id
		var v Value
		switch k {
		case KTrue:
			v = Value{Kind: KTrue, Bool: true}
		case KFalse:
			v = Value{Kind: KTrue, Bool: false}
		default:
			v, err = d.value(k, depth)
			if err != nil {
				return out, err
			}
		}
		out.Fields = append(out.Fields, Field{ID: id, V: v, LongForm: long})
	}
}

func (d *dec) value(k Kind, depth int) (Value, error) {
	switch k {
	case KTrue, KFalse:
		// bool inside a container: one byte, 1 = true, 2 = false (0 is also
		// written by some implementations for false)
		c, err := d.byte()
		if err != nil {
			return Value{}, err
		}
		return Value{Kind: KTrue, Bool: c == 1}, nil
	case KByte:
		c, err := d.byte()
		return Value{Kind: KByte, I: int64(int8(c))}, err
	case KI16, KI32, KI64:
		u, err := d.uvarint()
		return Value{Kind: k, I: unzig(u)}, err
	case KDouble:
		if d.pos+8 > len(d.b) {
			return Value{}, ErrTruncated
		}
		bits := binary.LittleEndian.Uint64(d.b[d.pos:])
		d.pos += 8
		return Value{Kind: KDouble, F: math.Float64frombits(bits)}, nil
	case KBinary:
		n, err := d.uvarint()
		if err != nil {
			return Value{}, err
		}
		if n > uint64(len(d.b)-d.pos) {
			return Value{}, ErrTruncated
		}
		out := make([]byte, n)
		copy(out, d.b[d.pos:])
		d.pos += int(n)
		return Value{Kind: KBinary, B: out}, nil
	case KList, KSet:
		h, err := d.byte()
		if err != nil {
			return Value{}, err
		}
		ek := Kind(h & 0x0f)
		n := uint64(h >> 4)
		if n == 15 {
			n, err = d.uvarint()
			if err != nil {
				return Value{}, err
			}
		}
		if n > uint64(len(d.b)-d.pos) && ek != KStruct {
			return Value{}, ErrTruncated
		}
		if n > uint64(len(d.b)) {
			return Value{}, ErrTruncated
		}
		out := Value{Kind: k, Elem: ek, L: make([]Value, 0, n)}
		for i := uint64(0); i < n; i++ {
			var v Value
			if ek == KStruct {
				v, err = d.structure(depth + 1)
			} else {
				v, err = d.value(ek, depth+1)
			}
			if err != nil {
				return out, err
			}
			out.L = append(out.L, v)
		}
		return out, nil
	case KMap:
		n, err := d.uvarint()
		if err != nil {
			return Value{}, err
		}
		out := Value{Kind: KMap}
		if n == 0 {
			return out, nil
		}
		h, err := d.byte()
		if err != nil {
			return out, err
		}
		out.KeyK, out.ValK = Kind(h>>4), Kind(h&0x0f)
		if n > uint64(len(d.b)) {
			return out, ErrTruncated
		}
		for i := uint64(0); i < n; i++ {
			var kv KV
			if out.KeyK == KStruct {
				kv.K, err = d.structure(depth + 1)
			} else {
				kv.K, err = d.value(out.KeyK, depth+1)
			}
			if err != nil {
				return out, err
			}
			if out.ValK == KStruct {
				kv.V, err = d.structure(depth + 1)
			} else {
				kv.V, err = d.value(out.ValK, depth+1)
			}
			if err != nil {
				return out, err
			}
			out.M = append(out.M, kv)
		}
		return out, nil
	case KStruct:
		return d.structure(depth + 1)
	}
	return Value{}, fmt.Errorf("thriftc: unknown wire type %d", k)
}

// ---- encoder ----

type enc struct{ b []byte }

func (e *enc) uvarint(u uint64) {
	for u >= 0x80 {
		e.b = append(e.b, byte(u)|0x80)
		u >>= 7
	}
	e.b = append(e.b, byte(u))
}

// EncodeStruct encodes a struct value (fields in the given order).
func EncodeStruct(v Value) []byte {
	e := &enc{}
	e.structure(v)
	return e.b
}

func (e *enc) structure(v Value) {
	var last int16
	for _, f := range v.Fields {
		k := f.V.Kind
		if k == KTrue && !f.V.Bool {
			k = KFalse
		}
		delta := f.ID - last
		if f.LongForm || delta <= 0 || delta > 15 {
			e.b = append(e.b, byte(k))
			e.uvarint(zig(int64(f.ID)))
		} else {
			e.b = append(e.b, byte(delta)<<4|byte(k))
		}
		last = f.ID
		if k != KTrue && k != KFalse {
			e.value(f.V)
		}
	}
	e.b = append(e.b, 0)
}

func (e *enc) value(v Value) {
	switch v.Kind {
	case KTrue, KFalse:
		if v.Bool {
			e.b = append(e.b, 1)
		} else {
			e.b = append(e.b, 2)
		}
	case KByte:
		e.b = append(e.b, byte(v.I))
	case KI16, KI32, KI64:
		e.uvarint(zig(v.I))
	case KDouble:
		var t [8]byte
		binary.LittleEndian.PutUint64(t[:], math.Float64bits(v.F))
		e.b = append(e.b, t[:]...)
	case KBinary:
		e.uvarint(uint64(len(v.B)))
		e.b = append(e.b, v.B...)
	case KList, KSet:
		ek := v.Elem
		if ek == KFalse {
			ek = KTrue
		}
		if len(v.L) < 15 {
			e.b = append(e.b, byte(len(v.L))<<4|byte(ek))
		} else {
			e.b = append(e.b, 0xf0|byte(ek))
			e.uvarint(uint64(len(v.L)))
		}
		for _, x := range v.L {
			if ek == KStruct {
				e.structure(x)
			} else {
				e.value(x)
			}
		}
	case KMap:
		e.uvarint(uint64(len(v.M)))
		if len(v.M) == 0 {
			return
		}
		e.b = append(e.b, byte(v.KeyK)<<4|byte(v.ValK))
		for _, kv := range v.M {
			if v.KeyK == KStruct {
				e.structure(kv.K)
			} else {
				e.value(kv.K)
			}
			if v.ValK == KStruct {
				e.structure(kv.V)
			} else {
				e.value(kv.V)
			}
		}
	case KStruct:
		e.structure(v)
	}
}

// Constructors.
func I32(i int64) Value       { return Value{Kind: KI32, I: i} }
func I64(i int64) Value       { return Value{Kind: KI64, I: i} }
func I16(i int64) Value       { return Value{Kind: KI16, I: i} }
func Bin(b []byte) Value      { return Value{Kind: KBinary, B: b} }
func Str(s string) Value      { return Value{Kind: KBinary, B: []byte(s)} }
func Bool(b bool) Value       { return Value{Kind: KTrue, Bool: b} }
func Struct(f ...Field) Value { return Value{Kind: KStruct, Fields: f} }
func List(ek Kind, l ...Value) Value {
	return Value{Kind: KList, Elem: ek, L: l}
}
func F(id int16, v Value) Field { return Field{ID: id, V: v} }

// Canon returns a canonical, comparable rendering of v: struct fields sorted
// by id order of appearance is kept (wire order is significant only for
// encoding, not for meaning), header form ignored.
func Canon(v Value) string {
	switch v.Kind {
	case KTrue, KFalse:
		return fmt.Sprintf("b:%v", v.Bool)
	case KByte, KI16, KI32, KI64:
		return fmt.Sprintf("i:%d", v.I)
	case KDouble:
		return fmt.Sprintf("d:%x", math.Float64bits(v.F))
	case KBinary:
		return fmt.Sprintf("s:%x", v.B)
	case KList, KSet:
		s := "["
		for i, x := range v.L {
			if i > 0 {
				s += ","
			}
			s += Canon(x)
		}
		return s + "]"
	case KMap:
		s := "m{"
		for _, kv := range v.M {
			s += Canon(kv.K) + "=>" + Canon(kv.V) + ","
		}
		return s + "}"
	case KStruct:
		// sort by id (stable insertion sort; structs are small)
		fs := append([]Field(nil), v.Fields...)
		for i := 1; i < len(fs); i++ {
			for j := i; j > 0 && fs[j].ID < fs[j-1].ID; j-- {
				fs[j], fs[j-1] = fs[j-1], fs[j]
			}
		}
		s := "{"
		for _, f := range fs {
			s += fmt.Sprintf("%d:%s;", f.ID, Canon(f.V))
		}
		return s + "}"
	}
	return "?"
}
