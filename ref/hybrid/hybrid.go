// Package hybrid is a specification decoder and a parameterised encoder for
// Parquet's RLE/bit-packed hybrid encoding (Encodings.md, "Run Length Encoding
// / Bit-Packing Hybrid (RLE = 3)"), written bit-at-a-time from the grammar in
// that document. It shares no code with the repository under test.
package hybrid

import (
	"encoding/binary"
	"errors"
	"fmt"
	"math/rand"
)

// Run describes one run of a hybrid stream.
type Run struct {
	BitPacked bool
	// Count is the number of values the run carries: the repeat count for an
	// RLE run, 8*groups for a bit-packed run.
	Count int
	// HeaderLen is the number of bytes of the varint header.
	HeaderLen int
}

func (r Run) String() string {
	if r.BitPacked {
		return fmt.Sprintf("B%d", r.Count/8)
	}
	return fmt.Sprintf("R%d", r.Count)
}

// Sig renders a run list compactly, e.g. "B63,B1,R9".
func Sig(runs []Run) string {
	s := ""
	for i, r := range runs {
		if i > 0 {
			s += ","
		}
		s += r.String()
	}
	return s
}

// Result of decoding one length-prefixed stream.
type Result struct {
	Values   []uint8 // all values carried by the runs (including padding)
	Runs     []Run
	Consumed int // 4 + payload length
}

// Decode decodes a 4-byte-length-prefixed hybrid stream at the start of b.
// It is strict: every malformation listed in the property is an error.
func Decode(b []byte, width int) (*Result, error) {
	if width < 0 || width > 32 {
		return nil, errors.New("hybrid: bad width")
	}
	if len(b) < 4 {
		return nil, errors.New("hybrid: missing length prefix")
	}
	n := int(binary.LittleEndian.Uint32(b))
	if n < 0 || n > len(b)-4 {
		return nil, fmt.Errorf("hybrid: length prefix %d exceeds available %d bytes", n, len(b)-4)
	}
	res, err := DecodeRaw(b[4:4+n], width)
	if err != nil {
		return nil, err
	}
	res.Consumed = 4 + n
	return res, nil
}

// DecodeRaw decodes the run sequence in p (no length prefix); all of p must be
// consumed exactly.
func DecodeRaw(p []byte, width int) (*Result, error) {
	res := &Result{}
	pos := 0
	vb := (width + 7) / 8
	for pos < len(p) {
		// varint header
		var h uint64
		var shift uint
		start := pos
		for {
			if pos >= len(p) {
				return nil, errors.New("hybrid: truncated run header")
			}
			c := p[pos]
			pos++
			h |= uint64(c&0x7f) << shift
			if c&0x80 == 0 {
				break
			}
			shift += 7
			if shift > 35 {
				return nil, errors.New("hybrid: run header too long")
			}
		}
		hl := pos - start
		if h&1 == 1 {
			groups := int(h >> 1)
			if groups == 0 {
				return nil, errors.New("hybrid: bit-packed run with zero groups")
			}
			nbytes := groups * width
			if pos+nbytes > len(p) {
				return nil, fmt.Errorf("hybrid: bit-packed run of %d groups truncated", groups)
			}
			// LSB-first: value i occupies bits [i*width, (i+1)*width) of the
			// little-endian bit stream.
			for i := 0; i < groups*8; i++ {
				var v uint8
				for k := 0; k < width; k++ {
					bit := i*width + k
					if p[pos+bit/8]>>(uint(bit)%8)&1 == 1 {
						v |= 1 << uint(k)
					}
				}
				res.Values = append(res.Values, v)
			}
			pos += nbytes
			res.Runs = append(res.Runs, Run{BitPacked: true, Count: groups * 8, HeaderLen: hl})
		} else {
			count := int(h >> 1)
			if count == 0 {
				return nil, errors.New("hybrid: RLE run with zero count")
			}
			if pos+vb > len(p) {
				return nil, errors.New("hybrid: RLE value truncated")
			}
			var v uint64
			for k := 0; k < vb; k++ {
				v |= uint64(p[pos+k]) << (8 * uint(k))
			}
			pos += vb
			if width < 64 && v>>uint(width) != 0 {
				return nil, fmt.Errorf("hybrid: RLE value %d wider than %d bits", v, width)
			}
			for i := 0; i < count; i++ {
				res.Values = append(res.Values, uint8(v))
			}
			res.Runs = append(res.Runs, Run{Count: count, HeaderLen: hl})
		}
	}
	return res, nil
}

// CheckEncodes verifies that stream b (length-prefixed) is a well-formed
// encoding of want: decodes to want followed by fewer than 8 padding values,
// padding only at the end of a final bit-packed run.
func CheckEncodes(b []byte, width int, want []uint8) (*Result, error) {
	res, err := Decode(b, width)
	if err != nil {
		return nil, err
	}
	if len(res.Values) < len(want) {
		return res, fmt.Errorf("hybrid: stream carries %d values, want %d", len(res.Values), len(want))
	}
	extra := len(res.Values) - len(want)
	if extra >= 8 {
		return res, fmt.Errorf("hybrid: %d padding values (must be < 8)", extra)
	}
	if extra > 0 && (len(res.Runs) == 0 || !res.Runs[len(res.Runs)-1].BitPacked) {
		return res, fmt.Errorf("hybrid: %d surplus values in a final RLE run", extra)
	}
	for i, v := range want {
		if res.Values[i] != v {
			return res, fmt.Errorf("hybrid: value %d decodes to %d, want %d", i, res.Values[i], v)
		}
	}
	return res, nil
}

// Seg is one element of an explicit segmentation: the next N values of the
// sequence are to be stored as an RLE run or as a bit-packed run.
type Seg struct {
	BitPacked bool
	N         int // values of the sequence covered by this run
}

// Encode encodes vals under the given segmentation and returns the
// length-prefixed stream. Constraints (checked): RLE runs cover >= 1 equal
// values; bit-packed runs cover a multiple of 8 values, except the last run
// of the stream which is padded with zeros to a multiple of 8.
func Encode(vals []uint8, width int, segs []Seg) ([]byte, error) {
	p, err := EncodeRaw(vals, width, segs)
	if err != nil {
		return nil, err
	}
	out := make([]byte, 4, 4+len(p))
	binary.LittleEndian.PutUint32(out, uint32(len(p)))
	return append(out, p...), nil
}

// EncodeRaw is Encode without the length prefix.
func EncodeRaw(vals []uint8, width int, segs []Seg) ([]byte, error) {
	var p []byte
	pos := 0
	vb := (width + 7) / 8
	for si, s := range segs {
		if s.N <= 0 || pos+s.N > len(vals) {
			return nil, fmt.Errorf("hybrid: segment %d out of range", si)
		}
		if s.BitPacked {
			last := si == len(segs)-1
			if s.N%8 != 0 && !last {
				return nil, fmt.Errorf("hybrid: interior bit-packed segment %d of %d values", si, s.N)
			}
			groups := (s.N + 7) / 8
			p = appendUvarint(p, uint64(groups)<<1|1)
			buf := make([]byte, groups*width)
			for i := 0; i < s.N; i++ {
				v := vals[pos+i]
				for k := 0; k < width; k++ {
					if v>>uint(k)&1 == 1 {
						bit := i*width + k
						buf[bit/8] |= 1 << (uint(bit) % 8)
					}
				}
			}
			p = append(p, buf...)
		} else {
			v := vals[pos]
			for i := 1; i < s.N; i++ {
				if vals[pos+i] != v {
					return nil, fmt.Errorf("hybrid: RLE segment %d covers unequal values", si)
				}
			}
			p = appendUvarint(p, uint64(s.N)<<1)
			for k := 0; k < vb; k++ {
				if k == 0 {
					p = append(p, v)
				} else {
					p = append(p, 0)
				}
			}
		}
		pos += s.N
	}
	if pos != len(vals) {
		return nil, fmt.Errorf("hybrid: segmentation covers %d of %d values", pos, len(vals))
	}
	return p, nil
}

func appendUvarint(p []byte, u uint64) []byte {
	for u >= 0x80 {
		p = append(p, byte(u)|0x80)
		u >>= 7
	}
	return append(p, byte(u))
}

// Style biases RandomSegs.
type Style int

const (
	StyleMixed   Style = iota // anything legal
	StyleRLEOnly              // every run RLE (length-1 runs where values differ)
	StyleBPOnly               // one or several bit-packed runs
	StyleBigBP                // bit-packed runs as long as possible (> 63 groups where the data allows)
	StyleTiny                 // shortest legal runs everywhere
)

// RandomSegs draws a legal segmentation of vals.
func RandomSegs(rng *rand.Rand, vals []uint8, style Style) []Seg {
	var segs []Seg
	pos := 0
	n := len(vals)
	for pos < n {
		rem := n - pos
		// length of the equal-value prefix
		eq := 1
		for pos+eq < n && vals[pos+eq] == vals[pos] {
			eq++
		}
		useBP := false
		switch style {
		case StyleRLEOnly:
			useBP = false
		case StyleBPOnly, StyleBigBP:
			useBP = true
		case StyleTiny:
			useBP = rng.Intn(2) == 0
		default:
			useBP = rng.Intn(3) == 0 || (eq < 3 && rng.Intn(3) != 0)
		}
		if useBP {
			maxGroups := (rem + 7) / 8
			var g int
			switch style {
			case StyleBigBP:
				g = maxGroups
				if g > 200 && rng.Intn(2) == 0 {
					g = 64 + rng.Intn(137)
				}
			case StyleTiny:
				g = 1
			case StyleBPOnly:
				g = 1 + rng.Intn(maxGroups)
			default:
				g = 1 + rng.Intn(min(maxGroups, 200))
				if rng.Intn(4) == 0 {
					g = 1 + rng.Intn(min(maxGroups, 3))
				}
			}
			cover := g * 8
			if cover > rem {
				cover = rem // final, padded
			}
			segs = append(segs, Seg{BitPacked: true, N: cover})
			pos += cover
		} else {
			l := eq
			switch style {
			case StyleTiny:
				l = 1
			case StyleRLEOnly:
				if rng.Intn(4) == 0 {
					l = 1 + rng.Intn(eq)
				}
			default:
				if rng.Intn(2) == 0 {
					l = 1 + rng.Intn(eq)
				}
			}
			segs = append(segs, Seg{N: l})
			pos += l
		}
	}
	return segs
}

// AllSegs enumerates every legal segmentation of vals (for short sequences).
// Bit-packed runs use 1..maxGroups groups.
func AllSegs(vals []uint8, f func([]Seg)) {
	var rec func(pos int, cur []Seg)
	n := len(vals)
	rec = func(pos int, cur []Seg) {
		if pos == n {
			f(cur)
			return
		}
		eq := 1
		for pos+eq < n && vals[pos+eq] == vals[pos] {
			eq++
		}
		for l := 1; l <= eq; l++ {
			rec(pos+l, append(cur, Seg{N: l}))
		}
		rem := n - pos
		for g := 1; g*8 < rem+8; g++ {
			cover := g * 8
			if cover > rem {
				cover = rem
			}
			rec(pos+cover, append(cur, Seg{BitPacked: true, N: cover}))
		}
	}
	rec(0, nil)
}

func min(a, b int) int {
	if a < b {
		return a
	}
	return b
}
