package hybrid

import (
	"bytes"
	"math/rand"
	"testing"
)

func TestSpecExample(t *testing.T) {
	// Encodings.md: values 0..7 at width 3 pack to 10001000 11000110 11111010
	vals := []uint8{0, 1, 2, 3, 4, 5, 6, 7}
	b, err := Encode(vals, 3, []Seg{{BitPacked: true, N: 8}})
	if err != nil {
		t.Fatal(err)
	}
	want := []byte{4, 0, 0, 0, 0x03, 0x88, 0xC6, 0xFA}
	if !bytes.Equal(b, want) {
		t.Fatalf("got %x want %x", b, want)
	}
	// RLE: 100 ones at width 1: header varint(200)=0xC8 0x01, value 0x01
	b, _ = Encode(bytes.Repeat([]byte{1}, 100), 1, []Seg{{N: 100}})
	if !bytes.Equal(b, []byte{3, 0, 0, 0, 0xC8, 0x01, 0x01}) {
		t.Fatalf("rle got %x", b)
	}
}

func TestSelfConsistency(t *testing.T) {
	rng := rand.New(rand.NewSource(1))
	for it := 0; it < 3000; it++ {
		w := 1 + rng.Intn(4)
		n := rng.Intn(700)
		vals := make([]uint8, n)
		for i := 0; i < n; {
			l := 1 + rng.Intn(1+rng.Intn(40))
			v := uint8(rng.Intn(1 << uint(w)))
			for j := 0; j < l && i < n; j++ {
				vals[i] = v
				i++
			}
		}
		segs := RandomSegs(rng, vals, Style(rng.Intn(5)))
		b, err := Encode(vals, w, segs)
		if err != nil {
			t.Fatal(err)
		}
		if _, err := CheckEncodes(b, w, vals); err != nil {
			t.Fatalf("w=%d vals=%v segs=%v: %v", w, vals, segs, err)
		}
	}
	cnt := 0
	AllSegs([]uint8{1, 1, 0, 0, 0, 1, 1, 1, 1, 1}, func(s []Seg) {
		cnt++
		b, err := Encode([]uint8{1, 1, 0, 0, 0, 1, 1, 1, 1, 1}, 1, s)
		if err != nil {
			t.Fatal(err, s)
		}
		if _, err := CheckEncodes(b, 1, []uint8{1, 1, 0, 0, 0, 1, 1, 1, 1, 1}); err != nil {
			t.Fatal(err)
		}
	})
	if cnt < 10 {
		t.Fatal("too few segmentations", cnt)
	}
	for _, bad := range [][]byte{
		{2, 0, 0, 0, 0x00, 0x01}, // zero-count RLE
		{1, 0, 0, 0, 0x01},       // zero-group bit-packed
		{2, 0, 0, 0, 0x10, 0x02}, // RLE value wider than width 1
		{3, 0, 0, 0, 0x10, 0x01}, // length prefix past the data
		{2, 0, 0, 0, 0x05, 0xff}, // truncated bit-packed payload (2 groups, 1 byte)
	} {
		if _, err := Decode(bad, 1); err == nil {
			t.Errorf("accepted malformed %x", bad)
		}
	}
}
