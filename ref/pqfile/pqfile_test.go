package pqfile

import (
	"bytes"
	"math/rand"
	"testing"

	"github.com/parsyl/parquet/verifkit/ref/hybrid"
)

func i32p(v int32) *int32 { return &v }

// a two-column schema written by the reference writer must parse back to the
// same structure and values, for every codec and random level segmentation.
func TestWriteParseRoundTrip(t *testing.T) {
	root := &Node{Name: "schema"}
	a := &Node{Name: "a", Rep: Required, Leaf: true, Type: TInt64, Path: []string{"a"}, Reps: []int32{0}}
	g := &Node{Name: "g", Rep: Optional, Path: []string{"g"}, Reps: []int32{1}, MaxDef: 1}
	b := &Node{Name: "b", Rep: Repeated, Leaf: true, Type: TByteArray, Path: []string{"g", "b"}, Reps: []int32{1, 2}, MaxDef: 2, MaxRep: 1}
	g.Children = []*Node{b}
	root.Children = []*Node{a, g}
	rng := rand.New(rand.NewSource(7))
	for it := 0; it < 200; it++ {
		n := 1 + rng.Intn(60)
		var avals []Val
		var reps, defs []uint8
		var bvals []Val
		for i := 0; i < n; i++ {
			avals = append(avals, Val{U: rng.Uint64()})
			switch rng.Intn(3) {
			case 0:
				reps, defs = append(reps, 0), append(defs, 0)
			case 1:
				reps, defs = append(reps, 0), append(defs, 1)
			default:
				k := 1 + rng.Intn(4)
				for j := 0; j < k; j++ {
					r := uint8(1)
					if j == 0 {
						r = 0
					}
					reps, defs = append(reps, r), append(defs, 2)
					bvals = append(bvals, Val{S: string(rune('a' + rng.Intn(26)))})
				}
			}
		}
		codec := int32(rng.Intn(3))
		st := hybrid.Style(rng.Intn(5))
		bodyA, _ := DataPageBody(a, nil, nil, avals, nil, nil)
		bodyB, err := DataPageBody(b, reps, defs, bvals, hybrid.RandomSegs(rng, reps, st), hybrid.RandomSegs(rng, defs, st))
		if err != nil {
			t.Fatal(err)
		}
		rgs := []WRowGroup{{NumRows: int64(n), Chunks: []WChunk{
			{Leaf: a, Codec: codec, Pages: []WPage{{Type: PData, NumValues: int32(n), Body: bodyA, Enc: EPlain, DefEnc: ERLE, RepEnc: ERLE}}},
			{Leaf: b, Codec: codec, Pages: []WPage{{Type: PData, NumValues: int32(len(defs)), Body: bodyB, Enc: EPlain, DefEnc: ERLE, RepEnc: ERLE, SnappyLiteral: it%2 == 0}}},
		}}}
		file, err := WriteFile(root, rgs, WOptions{CreatedBy: "t", ColumnOrders: it%3 == 0})
		if err != nil {
			t.Fatal(err)
		}
		d, err := Validate(file, Expect{Schema: root, Codec: codec, Records: int64(n)})
		if err != nil {
			t.Fatal(err)
		}
		if len(d.Failures) > 0 {
			t.Fatalf("iteration %d: %v", it, d.Failures)
		}
		pd := d.RowGroups[0].Chunks[1].Data[0]
		if !bytes.Equal(pd.Reps, reps) || !bytes.Equal(pd.Defs, defs) || len(pd.Vals) != len(bvals) {
			t.Fatalf("iteration %d: column b decodes differently", it)
		}
		for i := range bvals {
			if pd.Vals[i] != bvals[i] {
				t.Fatalf("value %d", i)
			}
		}
		// a corrupted copy must be faulted
		bad := append([]byte{}, file...)
		bad[len(bad)-9] ^= 0x40
		if d2, err := Validate(bad, Expect{Schema: root, Codec: codec, Records: int64(n)}); err == nil && d2 != nil && len(d2.Failures) == 0 {
			// flipping a bit in the footer's last byte region may still parse; flip the length instead
			bad2 := append([]byte{}, file...)
			bad2[len(bad2)-8]++
			if d3, err := Validate(bad2, Expect{Schema: root, Codec: codec, Records: int64(n)}); err == nil && d3 != nil && len(d3.Failures) == 0 {
				t.Fatalf("iteration %d: corrupted files accepted", it)
			}
		}
	}
	_ = i32p
}

func TestSnappyLiteralOnly(t *testing.T) {
	for _, n := range []int{0, 1, 59, 60, 61, 255, 256, 257, 65535, 65536, 65537, 200000} {
		b := []byte(bytes.Repeat([]byte{0xAB, 1, 2}, n/3+1))[:n]
		got, err := Inflate(CSnappy, SnappyLiteralOnly(b), int32(n))
		if err != nil || !bytes.Equal(got, b) {
			t.Fatalf("n=%d: %v", n, err)
		}
	}
}
