// Package pqfile is an independent Parquet file parser and writer, written
// from parquet-format (parquet.thrift field ids and doc comments, README,
// Encodings.md). It shares no code with the repository under test: footers
// and page headers go through ref/thriftc's schema-less codec.
package pqfile

import (
	"bytes"
	"compress/gzip"
	"encoding/binary"
	"errors"
	"fmt"
	"io"
	"strings"

	"github.com/golang/snappy"
	"github.com/parsyl/parquet/verifkit/ref/hybrid"
	"github.com/parsyl/parquet/verifkit/ref/thriftc"
)

// Physical types (parquet.thrift enum Type).
const (
	TBoolean   = 0
	TInt32     = 1
	TInt64     = 2
	TInt96     = 3
	TFloat     = 4
	TDouble    = 5
	TByteArray = 6
	TFixed     = 7
)

// Repetition (enum FieldRepetitionType).
const (
	Required = 0
	Optional = 1
	Repeated = 2
)

// Codecs (enum CompressionCodec).
const (
	CUncompressed = 0
	CSnappy       = 1
	CGzip         = 2
	CLzo          = 3
	CBrotli       = 4
	CLz4          = 5
	CZstd         = 6
	CLz4Raw       = 7
)

// Encodings (enum Encoding).
const (
	EPlain           = 0
	EPlainDictionary = 2
	ERLE             = 3
	EBitPacked       = 4
	EDeltaBinary     = 5
	EDeltaLenBA      = 6
	EDeltaBA         = 7
	ERLEDictionary   = 8
	EByteStreamSplit = 9
)

// Page types (enum PageType).
const (
	PData       = 0
	PIndex      = 1
	PDictionary = 2
	PDataV2     = 3
)

// Converted types used here.
const (
	CTUint32 = 13
	CTUint64 = 14
)

// SchemaElem is one element of FileMetaData.schema.
type SchemaElem struct {
	Type        *int32
	Rep         *int32
	Name        string
	NumChildren *int32
	Converted   *int32
}

// Stats is a Statistics struct.
type Stats struct {
	Max, Min           []byte // deprecated pair (fields 1, 2)
	HasMax, HasMin     bool
	NullCount          *int64
	DistinctCount      *int64
	MaxValue, MinValue []byte // fields 5, 6
	HasMaxV, HasMinV   bool
}

// Chunk is a ColumnChunk with its ColumnMetaData.
type Chunk struct {
	FileOffset     int64
	HasMeta        bool
	Type           int32
	Encodings      []int32
	Path           []string
	Codec          int32
	NumValues      int64
	TotalUncomp    int64
	TotalComp      int64
	DataPageOffset int64
	DictPageOffset *int64
	IndexPageOff   *int64
	Raw            thriftc.Value
}

// RowGroup is a RowGroup struct.
type RowGroup struct {
	Columns       []Chunk
	TotalByteSize int64
	NumRows       int64
}

// File is a parsed file.
type File struct {
	Data      []byte
	FooterOff int // offset of the first footer byte
	FooterLen int
	MetaRaw   thriftc.Value
	Version   int32
	Schema    []SchemaElem
	NumRows   int64
	RowGroups []RowGroup
	CreatedBy *string
}

// Page is one page found by walking a column chunk.
type Page struct {
	Offset    int // of the header
	HeaderLen int
	Raw       thriftc.Value
	Type      int32
	Uncomp    int32
	Comp      int32
	// data page v1 header
	HasDPH    bool
	NumValues int32
	Enc       int32
	DefEnc    int32
	RepEnc    int32
	Stats     *Stats
	HasDict   bool
	HasV2     bool
	HasIndex  bool
	Body      []byte // as stored (compressed)
}

func optI32(v *thriftc.Value, id int16) *int32 {
	f := v.Get(id)
	if f == nil {
		return nil
	}
	x := int32(f.I)
	return &x
}

func optI64(v *thriftc.Value, id int16) *int64 {
	f := v.Get(id)
	if f == nil {
		return nil
	}
	x := f.I
	return &x
}

// Parse checks the container (magic, footer length, footer = exactly one
// thrift struct) and decodes the footer.
func Parse(b []byte) (*File, error) {
	if len(b) < 12 {
		return nil, fmt.Errorf("file of %d bytes is too short", len(b))
	}
	if string(b[:4]) != "PAR1" {
		return nil, errors.New("leading magic is not PAR1")
	}
	if string(b[len(b)-4:]) != "PAR1" {
		return nil, errors.New("trailing magic is not PAR1")
	}
	fl := int(binary.LittleEndian.Uint32(b[len(b)-8:]))
	if fl <= 0 || fl > len(b)-12 {
		return nil, fmt.Errorf("footer length %d does not fit a file of %d bytes", fl, len(b))
	}
	fo := len(b) - 8 - fl
	raw, n, err := thriftc.DecodeStruct(b[fo : fo+fl])
	if err != nil {
		return nil, fmt.Errorf("footer does not decode: %v", err)
	}
	if n != fl {
		return nil, fmt.Errorf("footer struct is %d bytes but footer length says %d", n, fl)
	}
	f := &File{Data: b, FooterOff: fo, FooterLen: fl, MetaRaw: raw}
	if !raw.Has(1) || !raw.Has(2) || !raw.Has(3) || !raw.Has(4) {
		return nil, errors.New("footer lacks a required field (version, schema, num_rows, row_groups)")
	}
	f.Version = int32(raw.Int(1))
	f.NumRows = raw.Int(3)
	if c := raw.Get(6); c != nil {
		s := string(c.B)
		f.CreatedBy = &s
	}
	for _, se := range raw.List(2) {
		se := se
		e := SchemaElem{
			Type:        optI32(&se, 1),
			Rep:         optI32(&se, 3),
			Name:        se.Str(4),
			NumChildren: optI32(&se, 5),
			Converted:   optI32(&se, 6),
		}
		if !se.Has(4) {
			return nil, errors.New("schema element without name")
		}
		f.Schema = append(f.Schema, e)
	}
	for _, rg := range raw.List(4) {
		rg := rg
		g := RowGroup{TotalByteSize: rg.Int(2), NumRows: rg.Int(3)}
		if !rg.Has(1) || !rg.Has(2) || !rg.Has(3) {
			return nil, errors.New("row group lacks a required field")
		}
		for _, cc := range rg.List(1) {
			cc := cc
			c := Chunk{FileOffset: cc.Int(2), Raw: cc}
			if md := cc.Get(3); md != nil {
				c.HasMeta = true
				for _, id := range []int16{1, 2, 3, 4, 5, 6, 7, 9} {
					if !md.Has(id) {
						return nil, fmt.Errorf("column metadata lacks required field %d", id)
					}
				}
				c.Type = int32(md.Int(1))
				for _, e := range md.List(2) {
					c.Encodings = append(c.Encodings, int32(e.I))
				}
				for _, p := range md.List(3) {
					c.Path = append(c.Path, string(p.B))
				}
				c.Codec = int32(md.Int(4))
				c.NumValues = md.Int(5)
				c.TotalUncomp = md.Int(6)
				c.TotalComp = md.Int(7)
				c.DataPageOffset = md.Int(9)
				c.IndexPageOff = optI64(md, 10)
				c.DictPageOffset = optI64(md, 11)
			}
			g.Columns = append(g.Columns, c)
		}
		f.RowGroups = append(f.RowGroups, g)
	}
	return f, nil
}

func parseStats(v *thriftc.Value) *Stats {
	if v == nil {
		return nil
	}
	s := &Stats{NullCount: optI64(v, 3), DistinctCount: optI64(v, 4)}
	if f := v.Get(1); f != nil {
		s.Max, s.HasMax = f.B, true
	}
	if f := v.Get(2); f != nil {
		s.Min, s.HasMin = f.B, true
	}
	if f := v.Get(5); f != nil {
		s.MaxValue, s.HasMaxV = f.B, true
	}
	if f := v.Get(6); f != nil {
		s.MinValue, s.HasMinV = f.B, true
	}
	return s
}

// ReadPage decodes the page header at off and slices the body.
func ReadPage(b []byte, off int) (*Page, error) {
	if off < 0 || off >= len(b) {
		return nil, fmt.Errorf("page offset %d outside file", off)
	}
	raw, n, err := thriftc.DecodeStruct(b[off:])
	if err != nil {
		return nil, fmt.Errorf("page header at %d does not decode: %v", off, err)
	}
	if !raw.Has(1) || !raw.Has(2) || !raw.Has(3) {
		return nil, fmt.Errorf("page header at %d lacks a required field", off)
	}
	p := &Page{Offset: off, HeaderLen: n, Raw: raw, Type: int32(raw.Int(1)), Uncomp: int32(raw.Int(2)), Comp: int32(raw.Int(3))}
	if p.Comp < 0 || off+n+int(p.Comp) > len(b) {
		return nil, fmt.Errorf("page at %d: compressed size %d runs past the end of the file", off, p.Comp)
	}
	p.Body = b[off+n : off+n+int(p.Comp)]
	if d := raw.Get(5); d != nil {
		p.HasDPH = true
		p.NumValues = int32(d.Int(1))
		p.Enc = int32(d.Int(2))
		p.DefEnc = int32(d.Int(3))
		p.RepEnc = int32(d.Int(4))
		p.Stats = parseStats(d.Get(5))
		for _, id := range []int16{1, 2, 3, 4} {
			if !d.Has(id) {
				return nil, fmt.Errorf("data page header at %d lacks required field %d", off, id)
			}
		}
	}
	p.HasIndex = raw.Has(6)
	p.HasDict = raw.Has(7)
	p.HasV2 = raw.Has(8)
	return p, nil
}

// WalkChunk returns the pages of a chunk: starting at start, consuming exactly
// total bytes.
func WalkChunk(b []byte, start, total int64) ([]*Page, error) {
	var out []*Page
	off := int(start)
	end := int(start + total)
	for off < end {
		p, err := ReadPage(b, off)
		if err != nil {
			return out, err
		}
		out = append(out, p)
		off += p.HeaderLen + int(p.Comp)
	}
	if off != end {
		return out, fmt.Errorf("chunk at %d: pages end at %d but metadata says %d", start, off, end)
	}
	return out, nil
}

// Inflate decompresses a page body and checks the uncompressed size.
func Inflate(codec int32, body []byte, uncomp int32) ([]byte, error) {
	var out []byte
	switch codec {
	case CUncompressed:
		out = body
	case CSnappy:
		var err error
		out, err = snappy.Decode(nil, body)
		if err != nil {
			return nil, fmt.Errorf("snappy: %v", err)
		}
	case CGzip:
		zr, err := gzip.NewReader(bytes.NewReader(body))
		if err != nil {
			return nil, fmt.Errorf("gzip: %v", err)
		}
		out, err = io.ReadAll(zr)
		if err != nil {
			return nil, fmt.Errorf("gzip: %v", err)
		}
	default:
		return nil, fmt.Errorf("codec %d not handled by the reference", codec)
	}
	if len(out) != int(uncomp) {
		return nil, fmt.Errorf("page inflates to %d bytes, header says %d", len(out), uncomp)
	}
	return out, nil
}

// Node is a schema tree node.
type Node struct {
	Name      string
	Rep       int32 // Required/Optional/Repeated (root: Required)
	Leaf      bool
	Type      int32
	Converted *int32
	Children  []*Node
	Path      []string
	MaxDef    int
	MaxRep    int
	Reps      []int32 // repetition of every path element
}

// BuildTree turns the flat pre-order schema list into a tree, checking that it
// is well formed.
func BuildTree(schema []SchemaElem) (*Node, error) {
	if len(schema) == 0 {
		return nil, errors.New("empty schema")
	}
	pos := 0
	var build func(parent *Node, isRoot bool) (*Node, error)
	build = func(parent *Node, isRoot bool) (*Node, error) {
		if pos >= len(schema) {
			return nil, errors.New("schema list ends before num_children is satisfied")
		}
		e := schema[pos]
		pos++
		n := &Node{Name: e.Name, Converted: e.Converted}
		if !isRoot {
			if e.Rep == nil {
				return nil, fmt.Errorf("schema element %q has no repetition_type", e.Name)
			}
			if *e.Rep < 0 || *e.Rep > 2 {
				return nil, fmt.Errorf("schema element %q has repetition_type %d", e.Name, *e.Rep)
			}
			n.Rep = *e.Rep
			n.Path = append(append([]string{}, parent.Path...), e.Name)
			n.Reps = append(append([]int32{}, parent.Reps...), n.Rep)
			n.MaxDef, n.MaxRep = parent.MaxDef, parent.MaxRep
			if n.Rep != Required {
				n.MaxDef++
			}
			if n.Rep == Repeated {
				n.MaxRep++
			}
		} else if e.Type != nil {
			return nil, errors.New("root schema element has a type")
		}
		if e.NumChildren != nil && (*e.NumChildren > 0 || isRoot) {
			if e.Type != nil {
				return nil, fmt.Errorf("group %q has a physical type", e.Name)
			}
			if *e.NumChildren < 0 {
				return nil, fmt.Errorf("group %q has negative num_children", e.Name)
			}
			for i := int32(0); i < *e.NumChildren; i++ {
				c, err := build(n, false)
				if err != nil {
					return nil, err
				}
				n.Children = append(n.Children, c)
			}
			seen := map[string]bool{}
			for _, c := range n.Children {
				if seen[c.Name] {
					return nil, fmt.Errorf("group %q has two children named %q", strings.Join(n.Path, "."), c.Name)
				}
				seen[c.Name] = true
			}
		} else {
			if isRoot {
				return nil, errors.New("root has no num_children")
			}
			if e.Type == nil {
				return nil, fmt.Errorf("leaf %q has no physical type", e.Name)
			}
			n.Leaf = true
			n.Type = *e.Type
		}
		return n, nil
	}
	root, err := build(nil, true)
	if err != nil {
		return nil, err
	}
	if pos != len(schema) {
		return nil, fmt.Errorf("schema list has %d elements but the tree rooted at element 0 uses %d", len(schema), pos)
	}
	return root, nil
}

// Leaves returns the leaves in schema order.
func (n *Node) Leaves() []*Node {
	if n.Leaf {
		return []*Node{n}
	}
	var out []*Node
	for _, c := range n.Children {
		out = append(out, c.Leaves()...)
	}
	return out
}

// Describe renders a tree for messages and comparison.
func (n *Node) Describe() string {
	var sb strings.Builder
	var rec func(x *Node, ind string)
	rec = func(x *Node, ind string) {
		rep := []string{"required", "optional", "repeated"}[x.Rep]
		if x.Leaf {
			ct := ""
			if x.Converted != nil {
				ct = fmt.Sprintf(" ct=%d", *x.Converted)
			}
			fmt.Fprintf(&sb, "%s%s %s type=%d%s\n", ind, rep, x.Name, x.Type, ct)
		} else {
			fmt.Fprintf(&sb, "%s%s group %s {\n", ind, rep, x.Name)
			for _, c := range x.Children {
				rec(c, ind+"  ")
			}
			fmt.Fprintf(&sb, "%s}\n", ind)
		}
	}
	for _, c := range n.Children {
		rec(c, "")
	}
	return sb.String()
}

// LevelWidth is the bit width needed for levels up to max.
func LevelWidth(max int) int {
	w := 0
	for max > 0 {
		w++
		max >>= 1
	}
	return w
}

// Val is one decoded PLAIN value. Integers and floats carry their
// little-endian bit pattern in U; byte arrays are in S; booleans are 0/1.
type Val struct {
	U uint64
	S string
}

// DecodePlain decodes exactly n PLAIN values of physical type t and returns
// the number of bytes consumed.
func DecodePlain(t int32, b []byte, n int) ([]Val, int, error) {
	out := make([]Val, 0, n)
	pos := 0
	switch t {
	case TBoolean:
		need := (n + 7) / 8
		if need > len(b) {
			return nil, 0, fmt.Errorf("%d booleans need %d bytes, have %d", n, need, len(b))
		}
		for i := 0; i < n; i++ {
			out = append(out, Val{U: uint64(b[i/8] >> (uint(i) % 8) & 1)})
		}
		return out, need, nil
	case TInt32, TFloat:
		if 4*n > len(b) {
			return nil, 0, fmt.Errorf("%d 4-byte values need %d bytes, have %d", n, 4*n, len(b))
		}
		for i := 0; i < n; i++ {
			out = append(out, Val{U: uint64(binary.LittleEndian.Uint32(b[4*i:]))})
		}
		return out, 4 * n, nil
	case TInt64, TDouble:
		if 8*n > len(b) {
			return nil, 0, fmt.Errorf("%d 8-byte values need %d bytes, have %d", n, 8*n, len(b))
		}
		for i := 0; i < n; i++ {
			out = append(out, Val{U: binary.LittleEndian.Uint64(b[8*i:])})
		}
		return out, 8 * n, nil
	case TByteArray:
		for i := 0; i < n; i++ {
			if pos+4 > len(b) {
				return nil, 0, fmt.Errorf("byte array %d: length prefix truncated", i)
			}
			l := int(binary.LittleEndian.Uint32(b[pos:]))
			pos += 4
			if l < 0 || pos+l > len(b) {
				return nil, 0, fmt.Errorf("byte array %d: length %d runs past the page", i, l)
			}
			out = append(out, Val{S: string(b[pos : pos+l])})
			pos += l
		}
		return out, pos, nil
	}
	return nil, 0, fmt.Errorf("physical type %d not handled", t)
}

// EncodePlain encodes values of physical type t.
func EncodePlain(t int32, vals []Val) []byte {
	var out []byte
	switch t {
	case TBoolean:
		out = make([]byte, (len(vals)+7)/8)
		for i, v := range vals {
			if v.U&1 == 1 {
				out[i/8] |= 1 << (uint(i) % 8)
			}
		}
	case TInt32, TFloat:
		for _, v := range vals {
			var t4 [4]byte
			binary.LittleEndian.PutUint32(t4[:], uint32(v.U))
			out = append(out, t4[:]...)
		}
	case TInt64, TDouble:
		for _, v := range vals {
			var t8 [8]byte
			binary.LittleEndian.PutUint64(t8[:], v.U)
			out = append(out, t8[:]...)
		}
	case TByteArray:
		for _, v := range vals {
			var t4 [4]byte
			binary.LittleEndian.PutUint32(t4[:], uint32(len(v.S)))
			out = append(out, t4[:]...)
			out = append(out, v.S...)
		}
	}
	return out
}

// PageData is a decoded v1 data page.
type PageData struct {
	Reps, Defs       []uint8
	RepRuns, DefRuns []hybrid.Run
	Vals             []Val
	NonNull          int
}

// DecodeDataPage splits an inflated v1 data page into its sections, strictly:
// level streams must be well-formed hybrid streams carrying num_values levels
// plus < 8 padding, levels must not exceed the maxima, the PLAIN values must
// be exactly as many as there are levels equal to maxDef, and the sections
// must consume the page exactly.
func DecodeDataPage(leaf *Node, p *Page, data []byte) (*PageData, error) {
	if !p.HasDPH {
		return nil, errors.New("not a v1 data page")
	}
	if p.Enc != EPlain {
		return nil, fmt.Errorf("value encoding %d is not PLAIN", p.Enc)
	}
	n := int(p.NumValues)
	out := &PageData{}
	pos := 0
	if leaf.MaxRep > 0 {
		if p.RepEnc != ERLE {
			return nil, fmt.Errorf("repetition level encoding %d is not RLE", p.RepEnc)
		}
		r, err := hybrid.Decode(data[pos:], LevelWidth(leaf.MaxRep))
		if err != nil {
			return nil, fmt.Errorf("repetition levels: %v", err)
		}
		if len(r.Values) < n || len(r.Values)-n >= 8 {
			return nil, fmt.Errorf("repetition levels carry %d values for num_values %d", len(r.Values), n)
		}
		out.Reps = r.Values[:n]
		out.RepRuns = r.Runs
		pos += r.Consumed
	}
	if leaf.MaxDef > 0 {
		if p.DefEnc != ERLE {
			return nil, fmt.Errorf("definition level encoding %d is not RLE", p.DefEnc)
		}
		r, err := hybrid.Decode(data[pos:], LevelWidth(leaf.MaxDef))
		if err != nil {
			return nil, fmt.Errorf("definition levels: %v", err)
		}
		if len(r.Values) < n || len(r.Values)-n >= 8 {
			return nil, fmt.Errorf("definition levels carry %d values for num_values %d", len(r.Values), n)
		}
		out.Defs = r.Values[:n]
		out.DefRuns = r.Runs
		pos += r.Consumed
	}
	for i, d := range out.Defs {
		if int(d) > leaf.MaxDef {
			return nil, fmt.Errorf("definition level %d at %d exceeds max %d", d, i, leaf.MaxDef)
		}
	}
	for i, r := range out.Reps {
		if int(r) > leaf.MaxRep {
			return nil, fmt.Errorf("repetition level %d at %d exceeds max %d", r, i, leaf.MaxRep)
		}
	}
	nn := n
	if leaf.MaxDef > 0 {
		nn = 0
		for _, d := range out.Defs {
			if int(d) == leaf.MaxDef {
				nn++
			}
		}
	}
	out.NonNull = nn
	vals, used, err := DecodePlain(leaf.Type, data[pos:], nn)
	if err != nil {
		return nil, fmt.Errorf("values: %v", err)
	}
	out.Vals = vals
	pos += used
	if pos != len(data) {
		return nil, fmt.Errorf("sections consume %d of %d page bytes", pos, len(data))
	}
	return out, nil
}
