package pqfile

import (
	"fmt"
	"strings"
)

// Failure is one way in which a file is not valid / not truthful.
type Failure struct {
	Kind string // short stable identifier of the sub-check
	Msg  string
}

func (f Failure) String() string { return f.Kind + ": " + f.Msg }

// DecodedChunk is one column chunk with its pages decoded by the reference.
type DecodedChunk struct {
	Leaf  *Node
	Meta  *Chunk
	Start int64
	Pages []*Page
	Data  []*PageData // parallel to Pages; nil where the page did not decode
	// Records is the number of records (entries at repetition level 0) in
	// the chunk.
	Records int
}

// DecodedRG is one row group.
type DecodedRG struct {
	NumRows int64
	Chunks  []*DecodedChunk
}

// Decoded is a file decoded and cross-checked by the reference.
type Decoded struct {
	File      *File
	Tree      *Node
	Leaves    []*Node
	RowGroups []*DecodedRG
	Failures  []Failure
	// Evaluated counts how many times each sub-check was evaluated.
	Evaluated map[string]int
}

// Expect is what the caller knows about how the file was produced.
type Expect struct {
	Schema      *Node // expected schema tree (nil: not checked)
	Codec       int32 // expected codec of every chunk (-1: not checked)
	MaxPageRecs int   // maximum records per data page (0: not checked)
	Records     int64 // expected total records (-1: not checked)
	// Lenient relaxes the layout rules that only the library's own writer is
	// expected to follow (no gaps, chunks from byte 4 to the footer).
	Lenient bool
}

func (d *Decoded) fail(kind, format string, a ...interface{}) {
	d.Failures = append(d.Failures, Failure{Kind: kind, Msg: fmt.Sprintf(format, a...)})
}

func (d *Decoded) ev(kind string) { d.Evaluated[kind]++ }

// CompareSchema checks that got has the columns of want: same tree shape,
// names, repetition at every level, physical types, converted types for
// unsigned integers.
func CompareSchema(want, got *Node) error {
	var cmp func(w, g *Node, where string) error
	cmp = func(w, g *Node, where string) error {
		if len(w.Children) != len(g.Children) {
			return fmt.Errorf("%s has %d children, expected %d", where, len(g.Children), len(w.Children))
		}
		for i := range w.Children {
			wc, gc := w.Children[i], g.Children[i]
			p := where + "." + wc.Name
			if wc.Name != gc.Name {
				return fmt.Errorf("%s: child %d is named %q, expected %q", where, i, gc.Name, wc.Name)
			}
			if wc.Rep != gc.Rep {
				return fmt.Errorf("%s: repetition %d, expected %d", p, gc.Rep, wc.Rep)
			}
			if wc.Leaf != gc.Leaf {
				return fmt.Errorf("%s: leaf=%v, expected leaf=%v", p, gc.Leaf, wc.Leaf)
			}
			if wc.Leaf {
				if wc.Type != gc.Type {
					return fmt.Errorf("%s: physical type %d, expected %d", p, gc.Type, wc.Type)
				}
				if wc.Converted != nil {
					if gc.Converted == nil || *gc.Converted != *wc.Converted {
						return fmt.Errorf("%s: converted type %v, expected %d", p, gc.Converted, *wc.Converted)
					}
				} else if gc.Converted != nil {
					c := *gc.Converted
					ok := (wc.Type == TByteArray && c == 0) || (wc.Type == TInt32 && c == 17) || (wc.Type == TInt64 && c == 18)
					if !ok {
						return fmt.Errorf("%s: unexpected converted type %d", p, c)
					}
				}
			} else if err := cmp(wc, gc, p); err != nil {
				return err
			}
		}
		return nil
	}
	return cmp(want, got, "root")
}

// Validate parses b and evaluates every structural and truthfulness check.
// A nil result means the container itself is unusable (see err).
func Validate(b []byte, exp Expect) (*Decoded, error) {
	f, err := Parse(b)
	if err != nil {
		return nil, err
	}
	d := &Decoded{File: f, Evaluated: map[string]int{}}
	d.ev("container")
	tree, err := BuildTree(f.Schema)
	d.ev("schema_tree")
	if err != nil {
		d.fail("schema_tree", "%v", err)
		return d, nil
	}
	d.Tree = tree
	d.Leaves = tree.Leaves()
	if exp.Schema != nil {
		d.ev("schema_matches_struct")
		if err := CompareSchema(exp.Schema, tree); err != nil {
			d.fail("schema_matches_struct", "%v", err)
		}
	}

	pos := int64(4)
	var sumRows int64
	for gi, rg := range f.RowGroups {
		drg := &DecodedRG{NumRows: rg.NumRows}
		d.RowGroups = append(d.RowGroups, drg)
		sumRows += rg.NumRows
		d.ev("chunks_match_leaves")
		if len(rg.Columns) != len(d.Leaves) {
			d.fail("chunks_match_leaves", "row group %d has %d column chunks for %d leaves", gi, len(rg.Columns), len(d.Leaves))
			continue
		}
		var sumUncomp int64
		for ci := range rg.Columns {
			c := &rg.Columns[ci]
			leaf := d.Leaves[ci]
			where := fmt.Sprintf("row group %d column %d (%s)", gi, ci, strings.Join(leaf.Path, "."))
			dc := &DecodedChunk{Leaf: leaf, Meta: c}
			drg.Chunks = append(drg.Chunks, dc)
			if !c.HasMeta {
				d.fail("chunk_metadata", "%s: no meta_data", where)
				continue
			}
			d.ev("chunk_path_type")
			if strings.Join(c.Path, "\x00") != strings.Join(leaf.Path, "\x00") {
				d.fail("chunk_path_type", "%s: path_in_schema %v", where, c.Path)
			}
			if c.Type != leaf.Type {
				d.fail("chunk_path_type", "%s: chunk type %d, schema type %d", where, c.Type, leaf.Type)
			}
			if exp.Codec >= 0 {
				d.ev("codec")
				if c.Codec != exp.Codec {
					d.fail("codec", "%s: codec %d recorded, writer was configured with %d", where, c.Codec, exp.Codec)
				}
			}
			start := c.DataPageOffset
			if c.DictPageOffset != nil && *c.DictPageOffset > 0 && *c.DictPageOffset < start {
				start = *c.DictPageOffset
			}
			dc.Start = start
			end := start + c.TotalComp
			if !exp.Lenient {
				d.ev("contiguous")
				if start != pos {
					d.fail("contiguous", "%s: chunk starts at %d but the previous chunk (or the magic) ends at %d", where, start, pos)
				}
			}
			d.ev("file_offset")
			if c.FileOffset != 0 && c.FileOffset != start && c.FileOffset != end {
				d.fail("file_offset", "%s: file_offset %d is neither 0, the chunk start %d nor its end %d", where, c.FileOffset, start, end)
			}
			pos = end
			sumUncomp += c.TotalUncomp
			if start < 4 || end > int64(f.FooterOff) || c.TotalComp < 0 {
				d.fail("chunk_range", "%s: chunk [%d,%d) lies outside the data area [4,%d)", where, start, end, f.FooterOff)
				continue
			}
			pages, err := WalkChunk(b, start, c.TotalComp)
			d.ev("page_walk")
			if err != nil {
				d.fail("page_walk", "%s: %v", where, err)
				continue
			}
			dc.Pages = pages
			dc.Data = make([]*PageData, len(pages))
			var nv, uncomp int64
			for pi, p := range pages {
				pw := fmt.Sprintf("%s page %d", where, pi)
				uncomp += int64(p.HeaderLen) + int64(p.Uncomp)
				d.ev("page_type")
				if p.Type != PData || !p.HasDPH {
					d.fail("page_type", "%s: page type %d (data_page_header present: %v)", pw, p.Type, p.HasDPH)
					continue
				}
				nv += int64(p.NumValues)
				d.ev("page_inflates")
				data, err := Inflate(c.Codec, p.Body, p.Uncomp)
				if err != nil {
					d.fail("page_inflates", "%s: %v", pw, err)
					continue
				}
				d.ev("page_sections")
				pd, err := DecodeDataPage(leaf, p, data)
				if err != nil {
					d.fail("page_sections", "%s: %v", pw, err)
					continue
				}
				dc.Data[pi] = pd
				recs := int(p.NumValues)
				if leaf.MaxRep > 0 {
					recs = 0
					for _, r := range pd.Reps {
						if r == 0 {
							recs++
						}
					}
					d.ev("page_record_boundary")
					if len(pd.Reps) > 0 && pd.Reps[0] != 0 {
						d.fail("page_record_boundary", "%s: first repetition level is %d", pw, pd.Reps[0])
					}
				}
				dc.Records += recs
				d.ev("page_nonempty")
				if p.NumValues <= 0 {
					d.fail("page_nonempty", "%s: data page with num_values %d", pw, p.NumValues)
				}
				if exp.MaxPageRecs > 0 {
					d.ev("page_max_records")
					if recs > exp.MaxPageRecs {
						d.fail("page_max_records", "%s: %d records in a page, MaxPageSize is %d", pw, recs, exp.MaxPageRecs)
					}
				}
			}
			d.ev("chunk_num_values")
			if nv != c.NumValues {
				d.fail("chunk_num_values", "%s: num_values %d but the pages hold %d", where, c.NumValues, nv)
			}
			d.ev("chunk_uncompressed_size")
			if uncomp != c.TotalUncomp {
				d.fail("chunk_uncompressed_size", "%s: total_uncompressed_size %d, headers+uncompressed pages are %d", where, c.TotalUncomp, uncomp)
			}
			d.ev("chunk_rows")
			if int64(dc.Records) != rg.NumRows {
				d.fail("chunk_rows", "%s: chunk holds %d records, row group num_rows is %d", where, dc.Records, rg.NumRows)
			}
		}
		d.ev("rg_total_byte_size")
		if rg.TotalByteSize != sumUncomp {
			d.fail("rg_total_byte_size", "row group %d: total_byte_size %d, sum of total_uncompressed_size is %d", gi, rg.TotalByteSize, sumUncomp)
		}
		d.ev("rg_nonempty")
		if rg.NumRows <= 0 {
			d.fail("rg_nonempty", "row group %d has num_rows %d", gi, rg.NumRows)
		}
	}
	if !exp.Lenient {
		d.ev("data_area_covered")
		if pos != int64(f.FooterOff) {
			d.fail("data_area_covered", "column chunks end at %d but the footer starts at %d: %d bytes belong to no listed chunk", pos, f.FooterOff, int64(f.FooterOff)-pos)
		}
	}
	d.ev("num_rows")
	if sumRows != f.NumRows {
		d.fail("num_rows", "FileMetaData.num_rows %d, row groups sum to %d", f.NumRows, sumRows)
	}
	if exp.Records >= 0 {
		d.ev("num_rows_written")
		if f.NumRows != exp.Records {
			d.fail("num_rows_written", "FileMetaData.num_rows %d, %d records were written", f.NumRows, exp.Records)
		}
	}
	return d, nil
}
