package pqfile

import (
	"bytes"
	"compress/gzip"
	"encoding/binary"
	"fmt"
	"hash/crc32"

	"github.com/golang/snappy"
	"github.com/parsyl/parquet/verifkit/ref/hybrid"
	"github.com/parsyl/parquet/verifkit/ref/thriftc"
)

// WPage is one page to be written. Body is the uncompressed page body; the
// writer compresses it with the chunk's codec unless Stored is given.
type WPage struct {
	Type      int32 // PData, PDictionary, PIndex, PDataV2
	NumValues int32
	Body      []byte
	// Stored, if non-nil, is written as the page bytes as-is and
	// UncompressedSize is recorded as the uncompressed size (exotic codecs,
	// v2 pages whose levels are stored outside the compressed part).
	Stored           []byte
	UncompressedSize int32

	// v1 data page header
	Enc, DefEnc, RepEnc int32
	Stats               *thriftc.Value

	// dictionary page header
	DictEnc int32
	// v2 data page header
	V2 *V2Header

	WithCRC     bool
	ExtraFields []thriftc.Field // unknown (future) page-header fields
	ExtraDPH    []thriftc.Field // unknown data-page-header fields
	LongForm    bool            // encode some field headers in the long form
	// SnappyLiteral forces a literal-only snappy stream; GzipLevel picks the
	// deflate level (0 = default).
	SnappyLiteral bool
	GzipLevel     int
	// Aux is carried along for the caller (e.g. the levels and values the
	// body was built from).
	Aux interface{}
}

// V2Header holds DataPageHeaderV2's own fields.
type V2Header struct {
	NumNulls, NumRows int32
	DefLen, RepLen    int32
	IsCompressed      *bool
}

// WChunk is one column chunk.
type WChunk struct {
	Leaf  *Node
	Codec int32
	Pages []WPage
	// NumValues overrides the sum of data-page values when non-zero.
	Encodings []int32
	// metadata options
	WithStats, WithEncodingStats, WithKV bool
	ExtraMeta                            []thriftc.Field
	FileOffsetStyle                      int // 0 = chunk start, 1 = zero, 2 = chunk end
	SetDictOffset                        bool
	// LieTotalComp / LieNumValues, when set, replace the truthful footer numbers (hostile or
	// damaged footers; the page bytes themselves stay truthful)
	LieTotalComp, LieNumValues *int64
}

// WRowGroup is one row group.
type WRowGroup struct {
	NumRows int64
	Chunks  []WChunk
	Extra   []thriftc.Field
}

// WOptions are file-level choices.
type WOptions struct {
	CreatedBy      string
	KeyValues      [][2]string
	ColumnOrders   bool
	ExtraFileMeta  []thriftc.Field
	TrailerGap     []byte // opaque bytes between the last row group and the footer (page indexes live there)
	RootName       string
	LongFormFooter bool
	Version        int32
}

// SnappyLiteralOnly frames b as a snappy block consisting of literals only.
func SnappyLiteralOnly(b []byte) []byte {
	out := appendUvarintB(nil, uint64(len(b)))
	for len(b) > 0 {
		n := len(b)
		if n > 65536 {
			n = 65536
		}
		switch {
		case n <= 60:
			out = append(out, byte(n-1)<<2)
		case n <= 256:
			out = append(out, 60<<2, byte(n-1))
		default:
			out = append(out, 61<<2, byte(n-1), byte((n-1)>>8))
		}
		out = append(out, b[:n]...)
		b = b[n:]
	}
	return out
}

func appendUvarintB(p []byte, u uint64) []byte {
	for u >= 0x80 {
		p = append(p, byte(u)|0x80)
		u >>= 7
	}
	return append(p, byte(u))
}

// Deflate compresses body with codec (the three supported codecs).
func Deflate(codec int32, body []byte, literal bool, gzLevel int) ([]byte, error) {
	switch codec {
	case CUncompressed:
		return body, nil
	case CSnappy:
		if literal {
			return SnappyLiteralOnly(body), nil
		}
		return snappy.Encode(nil, body), nil
	case CGzip:
		var buf bytes.Buffer
		lvl := gzip.DefaultCompression
		switch gzLevel {
		case 1:
			lvl = gzip.NoCompression
		case 2:
			lvl = gzip.BestSpeed
		case 3:
			lvl = gzip.BestCompression
		}
		zw, err := gzip.NewWriterLevel(&buf, lvl)
		if err != nil {
			return nil, err
		}
		zw.Write(body)
		zw.Close()
		return buf.Bytes(), nil
	}
	return nil, fmt.Errorf("Deflate: codec %d has no built-in encoder; supply Stored bytes", codec)
}

// DataPageBody assembles [rep levels][def levels][PLAIN values] for a v1 data
// page, with the given level segmentations (nil = a single legal default).
func DataPageBody(leaf *Node, reps, defs []uint8, vals []Val, repSegs, defSegs []hybrid.Seg) ([]byte, error) {
	var body []byte
	if leaf.MaxRep > 0 {
		if repSegs == nil {
			repSegs = []hybrid.Seg{{BitPacked: true, N: len(reps)}}
		}
		b, err := hybrid.Encode(reps, LevelWidth(leaf.MaxRep), repSegs)
		if err != nil {
			return nil, err
		}
		body = append(body, b...)
	}
	if leaf.MaxDef > 0 {
		if defSegs == nil {
			defSegs = []hybrid.Seg{{BitPacked: true, N: len(defs)}}
		}
		b, err := hybrid.Encode(defs, LevelWidth(leaf.MaxDef), defSegs)
		if err != nil {
			return nil, err
		}
		body = append(body, b...)
	}
	return append(body, EncodePlain(leaf.Type, vals)...), nil
}

func i32f(id int16, v int64) thriftc.Field { return thriftc.F(id, thriftc.I32(v)) }
func i64f(id int16, v int64) thriftc.Field { return thriftc.F(id, thriftc.I64(v)) }

func pageHeader(p *WPage, stored []byte, uncomp int32) []byte {
	fs := []thriftc.Field{i32f(1, int64(p.Type)), i32f(2, int64(uncomp)), i32f(3, int64(len(stored)))}
	if p.WithCRC {
		fs = append(fs, i32f(4, int64(int32(crc32.ChecksumIEEE(stored)))))
	}
	switch p.Type {
	case PData:
		dph := []thriftc.Field{i32f(1, int64(p.NumValues)), i32f(2, int64(p.Enc)), i32f(3, int64(p.DefEnc)), i32f(4, int64(p.RepEnc))}
		if p.Stats != nil {
			dph = append(dph, thriftc.F(5, *p.Stats))
		}
		dph = append(dph, p.ExtraDPH...)
		fs = append(fs, thriftc.F(5, thriftc.Struct(dph...)))
	case PIndex:
		fs = append(fs, thriftc.F(6, thriftc.Struct()))
	case PDictionary:
		fs = append(fs, thriftc.F(7, thriftc.Struct(i32f(1, int64(p.NumValues)), i32f(2, int64(p.DictEnc)))))
	case PDataV2:
		v := p.V2
		h := []thriftc.Field{i32f(1, int64(p.NumValues)), i32f(2, int64(v.NumNulls)), i32f(3, int64(v.NumRows)), i32f(4, int64(p.Enc)),
			i32f(5, int64(v.DefLen)), i32f(6, int64(v.RepLen))}
		if v.IsCompressed != nil {
			h = append(h, thriftc.F(7, thriftc.Bool(*v.IsCompressed)))
		}
		if p.Stats != nil {
			h = append(h, thriftc.F(8, *p.Stats))
		}
		fs = append(fs, thriftc.F(8, thriftc.Struct(h...)))
	}
	fs = append(fs, p.ExtraFields...)
	if p.LongForm {
		for i := range fs {
			if i%2 == 1 {
				fs[i].LongForm = true
			}
		}
	}
	return thriftc.EncodeStruct(thriftc.Struct(fs...))
}

// WriteFile lays the file out: magic, row groups (chunks contiguous in schema
// order), optional gap, footer, footer length, magic. It returns the bytes.
func WriteFile(root *Node, rgs []WRowGroup, opt WOptions) ([]byte, error) {
	out := []byte("PAR1")
	var rgVals []thriftc.Value
	var totalRows int64
	for gi := range rgs {
		rg := &rgs[gi]
		totalRows += rg.NumRows
		var cols []thriftc.Value
		var rgUncomp, rgComp int64
		rgStart := int64(len(out))
		for ci := range rg.Chunks {
			ch := &rg.Chunks[ci]
			start := int64(len(out))
			var nv, uncompTotal, compTotal int64
			var dataOff, dictOff, idxOff int64 = -1, -1, -1
			encSeen := map[int32]bool{}
			type encStat struct{ pt, enc int32 }
			encStats := map[encStat]int32{}
			for pi := range ch.Pages {
				p := &ch.Pages[pi]
				stored := p.Stored
				uncomp := p.UncompressedSize
				if stored == nil {
					var err error
					stored, err = Deflate(ch.Codec, p.Body, p.SnappyLiteral, p.GzipLevel)
					if err != nil {
						return nil, fmt.Errorf("row group %d chunk %d page %d: %v", gi, ci, pi, err)
					}
					uncomp = int32(len(p.Body))
				}
				hdr := pageHeader(p, stored, uncomp)
				off := int64(len(out))
				switch p.Type {
				case PDictionary:
					if dictOff < 0 {
						dictOff = off
					}
					encSeen[p.DictEnc] = true
					encStats[encStat{p.Type, p.DictEnc}]++
				case PIndex:
					if idxOff < 0 {
						idxOff = off
					}
				case PData, PDataV2:
					if dataOff < 0 {
						dataOff = off
					}
					nv += int64(p.NumValues)
					encSeen[p.Enc] = true
					encStats[encStat{p.Type, p.Enc}]++
					if ch.Leaf.MaxDef > 0 || ch.Leaf.MaxRep > 0 {
						encSeen[ERLE] = true
					}
				}
				out = append(out, hdr...)
				out = append(out, stored...)
				uncompTotal += int64(len(hdr)) + int64(uncomp)
				compTotal += int64(len(hdr)) + int64(len(stored))
			}
			if dataOff < 0 {
				dataOff = start
			}
			encs := ch.Encodings
			if encs == nil {
				for _, e := range []int32{EPlain, EPlainDictionary, ERLE, EBitPacked, EDeltaBinary, EDeltaLenBA, EDeltaBA, ERLEDictionary, EByteStreamSplit} {
					if encSeen[e] {
						encs = append(encs, e)
					}
				}
			}
			var encVals []thriftc.Value
			for _, e := range encs {
				encVals = append(encVals, thriftc.I32(int64(e)))
			}
			var pathVals []thriftc.Value
			for _, s := range ch.Leaf.Path {
				pathVals = append(pathVals, thriftc.Str(s))
			}
			md := []thriftc.Field{i32f(1, int64(ch.Leaf.Type)), thriftc.F(2, thriftc.List(thriftc.KI32, encVals...)), thriftc.F(3, thriftc.List(thriftc.KBinary, pathVals...)),
				i32f(4, int64(ch.Codec)), i64f(5, lie(ch.LieNumValues, nv)), i64f(6, uncompTotal), i64f(7, lie(ch.LieTotalComp, compTotal))}
			if ch.WithKV {
				md = append(md, thriftc.F(8, thriftc.List(thriftc.KStruct, thriftc.Struct(thriftc.F(1, thriftc.Str("writer.note")), thriftc.F(2, thriftc.Str("reference"))))))
			}
			md = append(md, i64f(9, dataOff))
			if idxOff >= 0 {
				md = append(md, i64f(10, idxOff))
			}
			if dictOff >= 0 || ch.SetDictOffset {
				if dictOff < 0 {
					dictOff = 0
				}
				md = append(md, i64f(11, dictOff))
			}
			if ch.WithStats {
				md = append(md, thriftc.F(12, thriftc.Struct(i64f(3, 0))))
			}
			if ch.WithEncodingStats {
				var es []thriftc.Value
				for k, n := range encStats {
					es = append(es, thriftc.Struct(i32f(1, int64(k.pt)), i32f(2, int64(k.enc)), i32f(3, int64(n))))
				}
				// deterministic order
				for i := 1; i < len(es); i++ {
					for j := i; j > 0 && thriftc.Canon(es[j]) < thriftc.Canon(es[j-1]); j-- {
						es[j], es[j-1] = es[j-1], es[j]
					}
				}
				md = append(md, thriftc.F(13, thriftc.List(thriftc.KStruct, es...)))
			}
			md = append(md, ch.ExtraMeta...)
			fo := start
			switch ch.FileOffsetStyle {
			case 1:
				fo = 0
			case 2:
				fo = int64(len(out))
			}
			cols = append(cols, thriftc.Struct(i64f(2, fo), thriftc.F(3, thriftc.Struct(md...))))
			rgUncomp += uncompTotal
			rgComp += compTotal
		}
		rf := []thriftc.Field{thriftc.F(1, thriftc.List(thriftc.KStruct, cols...)), i64f(2, rgUncomp), i64f(3, rg.NumRows)}
		_ = rgStart
		rf = append(rf, rg.Extra...)
		rgVals = append(rgVals, thriftc.Struct(rf...))
	}
	out = append(out, opt.TrailerGap...)

	// schema, pre-order
	var schema []thriftc.Value
	rootName := opt.RootName
	if rootName == "" {
		rootName = "schema"
	}
	schema = append(schema, thriftc.Struct(thriftc.F(4, thriftc.Str(rootName)), i32f(5, int64(len(root.Children)))))
	var walk func(n *Node)
	walk = func(n *Node) {
		var fs []thriftc.Field
		if n.Leaf {
			fs = append(fs, i32f(1, int64(n.Type)))
		}
		fs = append(fs, i32f(3, int64(n.Rep)), thriftc.F(4, thriftc.Str(n.Name)))
		if !n.Leaf {
			fs = append(fs, i32f(5, int64(len(n.Children))))
		}
		if n.Converted != nil {
			fs = append(fs, i32f(6, int64(*n.Converted)))
		}
		schema = append(schema, thriftc.Struct(fs...))
		for _, c := range n.Children {
			walk(c)
		}
	}
	for _, c := range root.Children {
		walk(c)
	}
	ver := opt.Version
	if ver == 0 {
		ver = 1
	}
	fm := []thriftc.Field{i32f(1, int64(ver)), thriftc.F(2, thriftc.List(thriftc.KStruct, schema...)), i64f(3, totalRows), thriftc.F(4, thriftc.List(thriftc.KStruct, rgVals...))}
	if len(opt.KeyValues) > 0 {
		var kvs []thriftc.Value
		for _, kv := range opt.KeyValues {
			kvs = append(kvs, thriftc.Struct(thriftc.F(1, thriftc.Str(kv[0])), thriftc.F(2, thriftc.Str(kv[1]))))
		}
		fm = append(fm, thriftc.F(5, thriftc.List(thriftc.KStruct, kvs...)))
	}
	if opt.CreatedBy != "" {
		fm = append(fm, thriftc.F(6, thriftc.Str(opt.CreatedBy)))
	}
	if opt.ColumnOrders {
		var cos []thriftc.Value
		for range root.Leaves() {
			cos = append(cos, thriftc.Struct(thriftc.F(1, thriftc.Struct())))
		}
		fm = append(fm, thriftc.F(7, thriftc.List(thriftc.KStruct, cos...)))
	}
	fm = append(fm, opt.ExtraFileMeta...)
	if opt.LongFormFooter {
		for i := range fm {
			if i%2 == 0 {
				fm[i].LongForm = true
			}
		}
	}
	footer := thriftc.EncodeStruct(thriftc.Struct(fm...))
	out = append(out, footer...)
	var l [4]byte
	binary.LittleEndian.PutUint32(l[:], uint32(len(footer)))
	out = append(out, l[:]...)
	return append(out, "PAR1"...), nil
}

func lie(p *int64, v int64) int64 {
	if p != nil {
		return *p
	}
	return v
}
