package extra

import (
	"math/rand"
	"testing"

	"github.com/parsyl/parquet/verifkit/ref/pqfile"
)

type br struct {
	b   []byte
	pos int
}

func (r *br) uvarint() uint64 {
	var out uint64
	var shift uint
	for {
		c := r.b[r.pos]
		r.pos++
		out |= uint64(c&0x7f) << shift
		if c&0x80 == 0 {
			return out
		}
		shift += 7
	}
}

func unzig(u uint64) int64 { return int64(u>>1) ^ -int64(u&1) }

// decodeDelta is a straightforward DELTA_BINARY_PACKED decoder (Encodings.md).
func decodeDelta(b []byte) ([]int64, int) {
	r := &br{b: b}
	blockSize := int(r.uvarint())
	mini := int(r.uvarint())
	total := int(r.uvarint())
	first := unzig(r.uvarint())
	out := []int64{}
	if total == 0 {
		return out, r.pos
	}
	out = append(out, first)
	per := blockSize / mini
	for len(out) < total {
		minD := unzig(r.uvarint())
		widths := r.b[r.pos : r.pos+mini]
		r.pos += mini
		for m := 0; m < mini && len(out) < total; m++ {
			w := int(widths[m])
			for i := 0; i < per; i++ {
				var v uint64
				for k := 0; k < w; k++ {
					bit := i*w + k
					if r.b[r.pos+bit/8]>>(uint(bit)%8)&1 == 1 {
						v |= 1 << uint(k)
					}
				}
				if len(out) < total {
					out = append(out, out[len(out)-1]+minD+int64(v))
				}
			}
			r.pos += per * w / 8
		}
	}
	return out, r.pos
}

func TestDeltaBinaryPacked(t *testing.T) {
	rng := rand.New(rand.NewSource(3))
	for it := 0; it < 300; it++ {
		n := rng.Intn(400)
		vals := make([]int64, n)
		for i := range vals {
			switch it % 3 {
			case 0:
				vals[i] = int64(rng.Intn(100)) - 50
			case 1:
				vals[i] = int64(i) * 7
			default:
				vals[i] = int64(int32(rng.Uint32()))
			}
		}
		got, used := decodeDelta(DeltaBinaryPacked(vals))
		if len(got) != n {
			t.Fatalf("n=%d got %d", n, len(got))
		}
		for i := range vals {
			if got[i] != vals[i] {
				t.Fatalf("it %d value %d: %d != %d", it, i, got[i], vals[i])
			}
		}
		_ = used
	}
}

func TestSimpleEncodings(t *testing.T) {
	// BIT_PACKED levels: MSB first. Levels 0..7 at width 3 are the bits
	// 000 001 010 011 100 101 110 111 = 0x05 0x39 0x77 (Encodings.md, deprecated bit-packing example)
	got := BitPackedLevels([]uint8{0, 1, 2, 3, 4, 5, 6, 7}, 3)
	if len(got) != 3 || got[0] != 0x05 || got[1] != 0x39 || got[2] != 0x77 {
		t.Fatalf("BIT_PACKED example: %x", got)
	}
	// byte stream split of two float32 values
	b := ByteStreamSplit([]byte{1, 2, 3, 4, 5, 6, 7, 8}, 4)
	want := []byte{1, 5, 2, 6, 3, 7, 4, 8}
	for i := range want {
		if b[i] != want[i] {
			t.Fatalf("byte stream split: %v", b)
		}
	}
	// dictionary: indices decode back through the dictionary
	vals := []pqfile.Val{{U: 5}, {U: 9}, {U: 5}, {U: 5}, {U: 7}}
	dict, body, idx := Dictionary(pqfile.TInt32, vals)
	if len(dict) != 3 || len(body) != 12 || idx[0] != 2 {
		t.Fatalf("dictionary: %v %d %v", dict, len(body), idx)
	}
	// zstd raw frame: magic, single segment, content size, one last raw block
	z := ZstdRaw([]byte("hello"))
	if z[0] != 0x28 || z[1] != 0xB5 || z[2] != 0x2F || z[3] != 0xFD || string(z[len(z)-5:]) != "hello" {
		t.Fatalf("zstd frame: %x", z)
	}
	if h := uint32(z[13]) | uint32(z[14])<<8 | uint32(z[15])<<16; h != 5<<3|1 {
		t.Fatalf("zstd block header %x", h)
	}
	// LZ4 literal-only block: token high nibble 15 + extension for 20 literals
	l := LZ4RawLiteral(make([]byte, 20))
	if l[0] != 0xF0 || l[1] != 5 || len(l) != 22 {
		t.Fatalf("lz4: %x", l[:3])
	}
}
