// Package extra encodes the Parquet features the library under test does NOT
// implement (dictionary / index / v2 pages, non-PLAIN value encodings,
// BIT_PACKED levels, other codecs), so that C18 can present files that are
// otherwise valid. Everything is written from Encodings.md / the codec
// specifications in the simplest legal form.
package extra

import (
	"encoding/binary"
	"math/bits"

	"github.com/parsyl/parquet/verifkit/ref/pqfile"
)

func uvarint(p []byte, u uint64) []byte {
	for u >= 0x80 {
		p = append(p, byte(u)|0x80)
		u >>= 7
	}
	return append(p, byte(u))
}

func zigzag(i int64) uint64 { return uint64(i<<1) ^ uint64(i>>63) }

// packLSB packs values of the given width LSB-first.
func packLSB(vals []uint64, width int) []byte {
	out := make([]byte, (len(vals)*width+7)/8)
	for i, v := range vals {
		for k := 0; k < width; k++ {
			if v>>uint(k)&1 == 1 {
				bit := i*width + k
				out[bit/8] |= 1 << (uint(bit) % 8)
			}
		}
	}
	return out
}

// HybridNoPrefix encodes values as one bit-packed run (no length prefix), as
// used for dictionary indices and v2 levels.
func HybridNoPrefix(vals []uint64, width int) []byte {
	if len(vals) == 0 {
		return nil
	}
	groups := (len(vals) + 7) / 8
	padded := make([]uint64, groups*8)
	copy(padded, vals)
	out := uvarint(nil, uint64(groups)<<1|1)
	return append(out, packLSB(padded, width)...)
}

// Dictionary builds a dictionary page body (PLAIN distinct values) and the
// data-page value section (bit width byte + hybrid indices).
func Dictionary(t int32, vals []pqfile.Val) (dict []pqfile.Val, dictBody []byte, indexSection []byte) {
	idx := map[pqfile.Val]int{}
	var ids []uint64
	for _, v := range vals {
		i, ok := idx[v]
		if !ok {
			i = len(dict)
			idx[v] = i
			dict = append(dict, v)
		}
		ids = append(ids, uint64(i))
	}
	w := bits.Len(uint(len(dict) - 1))
	if len(dict) <= 1 {
		w = 0
	}
	if w == 0 {
		w = 1
	}
	dictBody = pqfile.EncodePlain(t, dict)
	indexSection = append([]byte{byte(w)}, HybridNoPrefix(ids, w)...)
	return
}

// DeltaBinaryPacked encodes signed integers (Encodings.md, DELTA_BINARY_PACKED).
func DeltaBinaryPacked(vals []int64) []byte {
	const blockSize, miniBlocks = 128, 4
	const perMini = blockSize / miniBlocks
	out := uvarint(nil, blockSize)
	out = uvarint(out, miniBlocks)
	out = uvarint(out, uint64(len(vals)))
	first := int64(0)
	if len(vals) > 0 {
		first = vals[0]
	}
	out = uvarint(out, zigzag(first))
	var deltas []int64
	for i := 1; i < len(vals); i++ {
		deltas = append(deltas, vals[i]-vals[i-1])
	}
	for start := 0; start < len(deltas); start += blockSize {
		end := start + blockSize
		if end > len(deltas) {
			end = len(deltas)
		}
		blk := deltas[start:end]
		minD := blk[0]
		for _, d := range blk {
			if d < minD {
				minD = d
			}
		}
		out = uvarint(out, zigzag(minD))
		widths := make([]byte, miniBlocks)
		var packed [][]byte
		for m := 0; m < miniBlocks; m++ {
			ms := m * perMini
			if ms >= len(blk) {
				packed = append(packed, nil)
				continue
			}
			me := ms + perMini
			if me > len(blk) {
				me = len(blk)
			}
			rel := make([]uint64, perMini)
			w := 0
			for i, d := range blk[ms:me] {
				rel[i] = uint64(d - minD)
				if l := bits.Len64(rel[i]); l > w {
					w = l
				}
			}
			widths[m] = byte(w)
			packed = append(packed, packLSB(rel, w))
		}
		out = append(out, widths...)
		for _, p := range packed {
			out = append(out, p...)
		}
	}
	return out
}

// DeltaLengthByteArray: delta-packed lengths followed by the concatenated data.
func DeltaLengthByteArray(vals []string) []byte {
	lens := make([]int64, len(vals))
	var data []byte
	for i, v := range vals {
		lens[i] = int64(len(v))
		data = append(data, v...)
	}
	return append(DeltaBinaryPacked(lens), data...)
}

// DeltaByteArray: prefix lengths (delta-packed), then suffixes as
// DELTA_LENGTH_BYTE_ARRAY.
func DeltaByteArray(vals []string) []byte {
	prefix := make([]int64, len(vals))
	suffix := make([]string, len(vals))
	prev := ""
	for i, v := range vals {
		p := 0
		for p < len(v) && p < len(prev) && v[p] == prev[p] {
			p++
		}
		prefix[i] = int64(p)
		suffix[i] = v[p:]
		prev = v
	}
	return append(DeltaBinaryPacked(prefix), DeltaLengthByteArray(suffix)...)
}

// ByteStreamSplit scatters the k-th byte of every value into stream k.
func ByteStreamSplit(plain []byte, size int) []byte {
	n := len(plain) / size
	out := make([]byte, len(plain))
	for i := 0; i < n; i++ {
		for k := 0; k < size; k++ {
			out[k*n+i] = plain[i*size+k]
		}
	}
	return out
}

// RLEBooleans: 4-byte length prefix + hybrid stream of width 1.
func RLEBooleans(vals []pqfile.Val) []byte {
	ids := make([]uint64, len(vals))
	for i, v := range vals {
		ids[i] = v.U & 1
	}
	body := HybridNoPrefix(ids, 1)
	out := make([]byte, 4)
	binary.LittleEndian.PutUint32(out, uint32(len(body)))
	return append(out, body...)
}

// BitPackedLevels is the deprecated BIT_PACKED level encoding: values packed
// back to back MSB-first, no length prefix.
func BitPackedLevels(levels []uint8, width int) []byte {
	out := make([]byte, (len(levels)*width+7)/8)
	bit := 0
	for _, v := range levels {
		for k := width - 1; k >= 0; k-- {
			if v>>uint(k)&1 == 1 {
				out[bit/8] |= 1 << (7 - uint(bit)%8)
			}
			bit++
		}
	}
	return out
}

// ZstdRaw wraps b in a Zstandard frame made of raw (uncompressed) blocks
// (RFC 8878: magic, frame header with single-segment flag and content size,
// raw blocks of at most 128 KiB).
func ZstdRaw(b []byte) []byte {
	out := []byte{0x28, 0xB5, 0x2F, 0xFD}
	// frame header descriptor: FCS flag 3 (8-byte content size), single segment
	out = append(out, 0xE0)
	var fcs [8]byte
	binary.LittleEndian.PutUint64(fcs[:], uint64(len(b)))
	out = append(out, fcs[:]...)
	if len(b) == 0 {
		return append(out, 0x01, 0x00, 0x00) // last block, raw, size 0
	}
	for len(b) > 0 {
		n := len(b)
		if n > 128*1024 {
			n = 128 * 1024
		}
		last := 0
		if n == len(b) {
			last = 1
		}
		h := uint32(n)<<3 | uint32(last) // block type 0 = raw
		out = append(out, byte(h), byte(h>>8), byte(h>>16))
		out = append(out, b[:n]...)
		b = b[n:]
	}
	return out
}

// LZ4RawLiteral is an LZ4 block holding one literal-only sequence.
func LZ4RawLiteral(b []byte) []byte {
	n := len(b)
	var out []byte
	if n < 15 {
		out = append(out, byte(n)<<4)
	} else {
		out = append(out, 0xF0)
		r := n - 15
		for r >= 255 {
			out = append(out, 255)
			r -= 255
		}
		out = append(out, byte(r))
	}
	return append(out, b...)
}

// LZ4Hadoop is the framing parquet-mr uses for codec LZ4: big-endian
// uncompressed and compressed sizes, then the block.
func LZ4Hadoop(b []byte) []byte {
	blk := LZ4RawLiteral(b)
	out := make([]byte, 8)
	binary.BigEndian.PutUint32(out, uint32(len(b)))
	binary.BigEndian.PutUint32(out[4:], uint32(len(blk)))
	return append(out, blk...)
}

// BrotliUncompressed is a brotli stream (RFC 7932) of uncompressed
// meta-blocks: WBITS=16 (one 0 bit), then per meta-block ISLAST=0, MNIBBLES=4
// (00), MLEN-1 in 16 bits, ISUNCOMPRESSED=1, padding to a byte boundary, the
// data; finally ISLAST=1, ISLASTEMPTY=1.
func BrotliUncompressed(b []byte) []byte {
	var out []byte
	var acc uint64
	nbits := uint(0)
	put := func(v uint64, n uint) {
		acc |= v << nbits
		nbits += n
		for nbits >= 8 {
			out = append(out, byte(acc))
			acc >>= 8
			nbits -= 8
		}
	}
	flush := func() {
		if nbits > 0 {
			out = append(out, byte(acc))
			acc = 0
			nbits = 0
		}
	}
	put(0, 1) // WBITS = 16
	for len(b) > 0 {
		n := len(b)
		if n > 65536 {
			n = 65536
		}
		put(0, 1)            // ISLAST = 0
		put(0, 2)            // MNIBBLES = 4
		put(uint64(n-1), 16) // MLEN - 1
		put(1, 1)            // ISUNCOMPRESSED
		flush()
		out = append(out, b[:n]...)
		b = b[n:]
	}
	put(1, 1) // ISLAST
	put(1, 1) // ISLASTEMPTY
	flush()
	return out
}
