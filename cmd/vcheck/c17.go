package main

import (
	"fmt"
	"os"
	"path/filepath"

	"github.com/parsyl/parquet/verifkit/shapes"
)

// customC17 links a freshly generated bitpack package next to the checked-in
// one, so that an edit to cmd/bitpackgen is seen even if bitpack.go was not
// regenerated.
func customC17(r *Run) ([]Crash, error) {
	if err := r.initWork(nil); err != nil {
		return nil, err
	}
	gen, err := r.buildTool("bitpackgen", "github.com/parsyl/parquet/cmd/bitpackgen")
	if err != nil {
		return nil, &buildViolation{Shape: "bitpackgen", Kind: "compile_fail", Detail: err.Error()}
	}
	dir := filepath.Join(r.Work, "bpfresh")
	os.MkdirAll(dir, 0o755)
	if out, err := r.cmd(dir, nil, gen, "-package", "bpfresh", "-maxwidth", "4", "-output", "bitpack.go"); err != nil {
		return nil, &buildViolation{Shape: "bitpackgen", Kind: "gen_fail", Detail: fmt.Sprintf("bitpackgen failed: %v\n%s", err, out)}
	}
	glue := fmt.Sprintf("package bpfresh\n\nimport drv \"%s/drv\"\n\nfunc init() { drv.RegisterBitpack(\"fresh\", Pack, Unpack) }\n", shapes.KitModule)
	if err := os.WriteFile(filepath.Join(dir, "glue.go"), []byte(glue), 0o644); err != nil {
		return nil, err
	}
	bin, out, err := r.buildDriver("drv", []string{"bpfresh"}, false)
	if err != nil {
		return nil, &buildViolation{Shape: "bitpackgen", Kind: "compile_fail", Detail: "freshly generated bitpack package does not compile: " + tail(out, 3000)}
	}
	r.log("built driver with fresh bitpack package")
	n := r.Spec.Shards
	if r.Only != "" {
		n = 1
	}
	return r.runShards(bin, n, r.timeout(), nil, nil), nil
}
