package main

import (
	"bufio"
	"bytes"
	"encoding/json"
	"fmt"
	"os"
	"os/exec"
	"path/filepath"
	"sort"
	"strings"
	"sync"
	"time"

	"github.com/parsyl/parquet/verifkit/shapes"
)

// Violation mirrors drv.Violation.
type Violation struct {
	Prop   string                 `json:"prop"`
	Key    string                 `json:"key"`
	Case   string                 `json:"case"`
	Shape  string                 `json:"shape,omitempty"`
	Detail string                 `json:"detail"`
	Extra  map[string]interface{} `json:"extra,omitempty"`
}

// Merged is the union of what all children observed.
type Merged struct {
	Violations   []Violation
	Counters     map[string]int64
	Maxes        map[string]int64
	Distinct     map[uint64]struct{}
	Nontriv      map[uint64]struct{}
	Sets         map[string]map[string]struct{}
	Samples      []interface{}
	Inconclusive []string
}

func newMerged() *Merged {
	return &Merged{Counters: map[string]int64{}, Maxes: map[string]int64{}, Distinct: map[uint64]struct{}{}, Nontriv: map[uint64]struct{}{},
		Sets: map[string]map[string]struct{}{}}
}

func (m *Merged) setAdd(set, member string) {
	s := m.Sets[set]
	if s == nil {
		s = map[string]struct{}{}
		m.Sets[set] = s
	}
	s[member] = struct{}{}
}

// Run is one check invocation.
type Run struct {
	Prop   string
	Tier   string
	Seed   int64
	Only   string
	Repo   string
	Kit    string
	Work   string
	Env    []string
	Start  time.Time
	Spec   *Spec
	M      *Merged
	Srcs   map[string]shapes.Src
	Replay *ReplayFile
	logf   *os.File
}

func (r *Run) Thorough() bool { return r.Tier == "thorough" }

func (r *Run) log(format string, a ...interface{}) {
	msg := fmt.Sprintf(format, a...)
	fmt.Fprintf(os.Stderr, "[vcheck %s %6.1fs] %s\n", r.Prop, time.Since(r.Start).Seconds(), msg)
}

func kitDir() string {
	if d := os.Getenv("VERIF_KIT"); d != "" {
		return d
	}
	exe, err := os.Executable()
	if err == nil {
		d := filepath.Dir(filepath.Dir(exe))
		if _, err := os.Stat(filepath.Join(d, "properties.jsonl")); err == nil {
			return d
		}
	}
	wd, _ := os.Getwd()
	return wd
}

func baseEnv(extra ...string) []string {
	env := []string{}
	for _, e := range os.Environ() {
		if strings.HasPrefix(e, "GOFLAGS=") || strings.HasPrefix(e, "GOPROXY=") || strings.HasPrefix(e, "GOSUMDB=") || strings.HasPrefix(e, "GOTOOLCHAIN=") ||
			strings.HasPrefix(e, "GOFAIL") || strings.HasPrefix(e, "GORACE=") {
			continue
		}
		env = append(env, e)
	}
	env = append(env, "GOFLAGS=-mod=mod", "GOPROXY=off", "GOSUMDB=off", "GOTOOLCHAIN=local", "GONOSUMCHECK=1", "GONOSUMDB=*", "GOWORK=off")
	return append(env, extra...)
}

func newRun(prop, tier string, seed int64) (*Run, error) {
	spec, ok := specs[prop]
	if !ok {
		return nil, fmt.Errorf("unknown property %s", prop)
	}
	repo := os.Getenv("VERIF_REPO")
	if repo == "" {
		repo = "/repo"
	}
	r := &Run{Prop: prop, Tier: tier, Seed: seed, Repo: repo, Kit: kitDir(), Start: time.Now(), Spec: spec, M: newMerged(), Srcs: map[string]shapes.Src{}}
	base := os.Getenv("VERIF_WORKBASE")
	if base == "" {
		base = "/var/tmp"
	}
	w, err := os.MkdirTemp(base, "verif-work."+prop+".")
	if err != nil {
		return nil, err
	}
	r.Work = w
	r.Env = baseEnv()
	if spec.PrivateCache {
		r.Env = append(r.Env, "GOCACHE="+filepath.Join(w, "gocache"))
	}
	return r, nil
}

func (r *Run) cleanup() {
	if os.Getenv("VERIF_KEEP") != "" {
		r.log("keeping %s", r.Work)
		return
	}
	// the module cache is read-only; the build cache is not
	exec.Command("chmod", "-R", "u+w", r.Work).Run()
	os.RemoveAll(r.Work)
}

// cmd runs a command in dir and returns combined output.
func (r *Run) cmd(dir string, extraEnv []string, name string, args ...string) ([]byte, error) {
	c := exec.Command(name, args...)
	c.Dir = dir
	c.Env = append(append([]string{}, r.Env...), extraEnv...)
	var buf bytes.Buffer
	c.Stdout = &buf
	c.Stderr = &buf
	err := c.Run()
	return buf.Bytes(), err
}

// initWork creates the work module.
func (r *Run) initWork(extraReplace map[string]string) error {
	if err := shapes.WriteGoMod(r.Work, r.Repo, r.Kit, extraReplace); err != nil {
		return err
	}
	return os.MkdirAll(filepath.Join(r.Work, "bin"), 0o755)
}

// buildTool builds a command of the repository from the current tree.
func (r *Run) buildTool(name, pkg string) (string, error) {
	out := filepath.Join(r.Work, "bin", name)
	b, err := r.cmd(r.Work, nil, "go", "build", "-o", out, pkg)
	if err != nil {
		return "", fmt.Errorf("building %s from %s failed: %v\n%s", pkg, r.Repo, err, tail(b, 3000))
	}
	return out, nil
}

func confirmTimeout(t int) int {
	if t > 600 {
		return 600
	}
	return t
}

// headTail keeps the first and the last n bytes of a child's output (the cause of a fatal
// error is at its head, the goroutine that was running at its tail).
func headTail(b []byte, n int) string {
	if len(b) <= 2*n {
		return string(b)
	}
	return string(b[:n]) + "\n… (" + fmt.Sprint(len(b)-2*n) + " bytes omitted) …\n" + string(b[len(b)-n:])
}

// crashCause is the first line of a child's output that names why it died.
func crashCause(b []byte) string {
	for _, l := range strings.Split(string(b), "\n") {
		t := strings.TrimSpace(l)
		for _, p := range []string{"fatal error:", "panic:", "SIGQUIT", "SIGSEGV", "SIGBUS", "runtime:", "unexpected fault", "WARNING: DATA RACE"} {
			if strings.HasPrefix(t, p) {
				return t
			}
		}
	}
	return ""
}

func tail(b []byte, n int) string {
	if len(b) > n {
		return "…" + string(b[len(b)-n:])
	}
	return string(b)
}

// GenResult is the outcome of running parquetgen on one source.
type GenResult struct {
	Src    shapes.Src
	OK     bool
	Output string
	Nondet bool
}

// generate emits sources and runs parquetgen on each (in parallel). With
// twice=true each is generated twice and the outputs compared.
func (r *Run) generate(pgen string, srcs []shapes.Src, twice bool) []GenResult {
	res := make([]GenResult, len(srcs))
	var wg sync.WaitGroup
	sem := make(chan struct{}, 16)
	for i := range srcs {
		wg.Add(1)
		go func(i int) {
			defer wg.Done()
			sem <- struct{}{}
			defer func() { <-sem }()
			s := srcs[i]
			res[i].Src = s
			if err := shapes.EmitTypes(r.Work, s); err != nil {
				res[i].Output = err.Error()
				return
			}
			dir := filepath.Join(r.Work, s.Name)
			run := func(out string) ([]byte, error) {
				c := exec.Command("timeout", "-s", "KILL", "60", pgen, "-input", "types.go", "-type", s.Type, "-package", s.Name, "-output", out)
				c.Dir = dir
				c.Env = r.Env
				return c.CombinedOutput()
			}
			b, err := run("parquet.go")
			if err != nil {
				res[i].Output = fmt.Sprintf("%v: %s", err, tail(b, 1500))
				os.Remove(filepath.Join(dir, "parquet.go"))
				return
			}
			if twice {
				b2, err := run("parquet2.go.txt")
				if err != nil {
					res[i].Output = fmt.Sprintf("second run: %v: %s", err, tail(b2, 1500))
					res[i].Nondet = true
					return
				}
				a1, _ := os.ReadFile(filepath.Join(dir, "parquet.go"))
				a2, _ := os.ReadFile(filepath.Join(dir, "parquet2.go.txt"))
				os.Remove(filepath.Join(dir, "parquet2.go.txt"))
				if !bytes.Equal(a1, a2) {
					res[i].Nondet = true
					res[i].Output = "two runs of parquetgen on the same input produced different output"
					return
				}
			}
			if err := shapes.EmitGlue(r.Work, s); err != nil {
				res[i].Output = err.Error()
				return
			}
			res[i].OK = true
		}(i)
	}
	wg.Wait()
	for _, g := range res {
		r.Srcs[g.Src.Name] = g.Src
	}
	return res
}

// buildDriver builds a driver binary importing pkgs.
func (r *Run) buildDriver(bin string, pkgs []string, race bool) (string, []byte, error) {
	if err := shapes.EmitDriverMain(r.Work, bin, pkgs); err != nil {
		return "", nil, err
	}
	out := filepath.Join(r.Work, "bin", bin)
	args := []string{"build", "-o", out}
	if race {
		args = append(args, "-race")
	}
	args = append(args, "./cmd/"+bin)
	b, err := r.cmd(r.Work, nil, "go", args...)
	return out, b, err
}

// Crash is a child that did not finish cleanly.
type Crash struct {
	Shard   int
	Case    string
	Exit    string
	Output  string
	Timeout bool
	// Cause: the line of the child's output that names why it died ("" if none)
	Cause string
	// NotRepeated: the journalled case, run again alone in a fresh child, completed
	NotRepeated bool
	// Confirmed: the journalled case, run again alone, died again
	Confirmed bool
}

// runShards runs bin as n children and merges their output.
func (r *Run) runShards(bin string, n int, timeoutSec int, extraArgs []string, extraEnv []string) []Crash {
	var crashes []Crash
	var mu sync.Mutex
	var wg sync.WaitGroup
	sem := make(chan struct{}, 16)
	tag := fmt.Sprintf("%s-%d", filepath.Base(bin), time.Now().UnixNano())
	for i := 0; i < n; i++ {
		wg.Add(1)
		go func(i int) {
			defer wg.Done()
			sem <- struct{}{}
			defer func() { <-sem }()
			res := filepath.Join(r.Work, fmt.Sprintf("res.%s.%d.jsonl", tag, i))
			jr := filepath.Join(r.Work, fmt.Sprintf("journal.%s.%d", tag, i))
			logp := filepath.Join(r.Work, fmt.Sprintf("child.%s.%d.log", tag, i))
			args := []string{"-s", "QUIT", fmt.Sprint(timeoutSec), bin, "-prop", r.Prop, "-tier", r.Tier, "-seed", fmt.Sprint(r.Seed),
				"-shard", fmt.Sprint(i), "-nshards", fmt.Sprint(n), "-out", res, "-journal", jr}
			if r.Only != "" {
				args = append(args, "-only", r.Only)
			}
			args = append(args, extraArgs...)
			c := exec.Command("timeout", args...)
			if kib := os.Getenv("VERIF_CHILD_AS_KIB"); kib != "" {
				// opt-in (tools/mutant.sh, tools/seeded_regress.sh): an address-space limit for the
				// first run of every child as well, so that a change which makes the library allocate
				// without bound dies with the Go runtime's own message within seconds instead of
				// after the kernel's OOM killer has been through the machine. Off in the registered
				// commands: the limit has only been measured on the quick tier.
				c = exec.Command("sh", append([]string{"-c", "ulimit -v " + kib + "; exec timeout \"$@\"", "sh"}, args...)...)
			}
			c.Dir = r.Work
			c.Env = append(append([]string{}, r.Env...), extraEnv...)
			lf, _ := os.Create(logp)
			c.Stdout = lf
			c.Stderr = lf
			err := c.Run()
			lf.Close()
			done := r.mergeFile(res, &mu)
			if err != nil || !done {
				jb, _ := os.ReadFile(jr)
				lb, _ := os.ReadFile(logp)
				cr := Crash{Shard: i, Case: strings.TrimSpace(string(jb)), Output: headTail(lb, 3000), Cause: crashCause(lb)}
				if err != nil {
					cr.Exit = err.Error()
					if ee, ok := err.(*exec.ExitError); ok && ee.ExitCode() == 124 {
						cr.Timeout = true
					}
				} else {
					cr.Exit = "no completion marker"
				}
				// confirm: the journalled case is run again, alone, in a fresh child. A death that
				// does not repeat (a one-off of the environment) is reported as inconclusive, not as
				// a violation; one that repeats is a violation.
				if cr.Case != "" && !cr.Timeout && r.Only == "" {
					res2 := res + ".confirm"
					args2 := []string{"-s", "QUIT", fmt.Sprint(confirmTimeout(timeoutSec)), bin, "-prop", r.Prop, "-tier", r.Tier, "-seed", fmt.Sprint(r.Seed),
						"-shard", "0", "-nshards", "1", "-out", res2, "-journal", jr + ".confirm", "-only", cr.Case}
					args2 = append(args2, extraArgs...)
					// alone and under an address-space limit of 12 GiB: a case that exhausts memory by
					// itself dies here with the Go runtime's own message instead of taking the machine down
					sh := "ulimit -v 12582912; exec timeout \"$@\""
					c2 := exec.Command("sh", append([]string{"-c", sh, "sh"}, args2...)...)
					c2.Dir = r.Work
					c2.Env = append(append([]string{}, r.Env...), extraEnv...)
					out2, err2 := c2.CombinedOutput()
					b2, _ := os.ReadFile(res2)
					switch {
					case err2 == nil && bytes.Contains(b2, []byte(`"t":"done"`)):
						cr.NotRepeated = true
					case err2 != nil:
						if ee, ok := err2.(*exec.ExitError); ok && ee.ExitCode() == 124 {
							cr.Timeout = true
						} else {
							cr.Confirmed = true
							cr.Output += "\n--- the case run again alone (fresh process, 12 GiB address space) died again (" + err2.Error() + "; " + crashCause(out2) + "):\n" + headTail(out2, 1500)
						}
					}
					os.Remove(res2)
					os.Remove(jr + ".confirm")
				}
				mu.Lock()
				crashes = append(crashes, cr)
				mu.Unlock()
			}
			os.Remove(res)
			os.Remove(jr)
			if os.Getenv("VERIF_KEEP") == "" {
				os.Remove(logp)
			}
		}(i)
	}
	wg.Wait()
	return crashes
}

func (r *Run) mergeFile(path string, mu *sync.Mutex) bool {
	f, err := os.Open(path)
	if err != nil {
		return false
	}
	defer f.Close()
	sc := bufio.NewScanner(f)
	sc.Buffer(make([]byte, 1<<20), 256<<20)
	done := false
	mu.Lock()
	defer mu.Unlock()
	for sc.Scan() {
		var line struct {
			T      string          `json:"t"`
			V      json.RawMessage `json:"v"`
			H      []uint64        `json:"h"`
			Name   string          `json:"name"`
			Reason string          `json:"reason"`
		}
		if err := json.Unmarshal(sc.Bytes(), &line); err != nil {
			continue
		}
		switch line.T {
		case "viol":
			var v Violation
			if json.Unmarshal(line.V, &v) == nil {
				r.M.Violations = append(r.M.Violations, v)
			}
		case "cnt":
			var m map[string]int64
			json.Unmarshal(line.V, &m)
			for k, v := range m {
				r.M.Counters[k] += v
			}
		case "max":
			var m map[string]int64
			json.Unmarshal(line.V, &m)
			for k, v := range m {
				if v > r.M.Maxes[k] {
					r.M.Maxes[k] = v
				}
			}
		case "dist":
			for _, h := range line.H {
				r.M.Distinct[h] = struct{}{}
			}
		case "nontriv":
			for _, h := range line.H {
				r.M.Nontriv[h] = struct{}{}
			}
		case "set":
			var ms []string
			json.Unmarshal(line.V, &ms)
			for _, x := range ms {
				r.M.setAdd(line.Name, x)
			}
		case "sample":
			var v interface{}
			json.Unmarshal(line.V, &v)
			if len(r.M.Samples) < 6 {
				r.M.Samples = append(r.M.Samples, v)
			}
		case "inconclusive":
			r.M.Inconclusive = append(r.M.Inconclusive, line.Reason)
		case "done":
			done = true
		}
	}
	return done
}

// portfolioBuild generates the portfolio packages and one driver binary.
func (r *Run) portfolioBuild(names []string, race bool, extraReplace map[string]string) (string, error) {
	if err := r.initWork(extraReplace); err != nil {
		return "", err
	}
	pgen, err := r.buildTool("parquetgen", "github.com/parsyl/parquet/cmd/parquetgen")
	if err != nil {
		return "", err
	}
	var srcs []shapes.Src
	for _, s := range shapes.Portfolio() {
		if len(names) == 0 || contains(names, s.Name) {
			srcs = append(srcs, s)
		}
	}
	gres := r.generate(pgen, srcs, false)
	var pkgs []string
	for _, g := range gres {
		if !g.OK {
			return "", &buildViolation{Shape: g.Src.Name, Kind: "gen_fail", Detail: "parquetgen failed on portfolio shape " + g.Src.Name + ": " + g.Output}
		}
		pkgs = append(pkgs, g.Src.Name)
	}
	// a fixed slice of the bounded struct grammar (shapes without a C05 finding): the statement of
	// C01-C03 quantifies over shapes, and generator edits only show on shapes
	if n := r.Spec.Universe; n > 0 && !race && extraReplace == nil {
		usrcs := universeSlice(r.Kit, n)
		ures := r.generate(pgen, usrcs, false)
		var names []string
		for _, g := range ures {
			if !g.OK {
				r.M.Violations = append(r.M.Violations, Violation{Prop: r.Prop, Key: "shape=" + g.Src.Sig + ";kind=gen_fail", Case: "build", Shape: g.Src.Name,
					Detail: fmt.Sprintf("struct shape %s (no known finding) — parquetgen failed:\n%s\n%s", g.Src.Sig, g.Src.Code, g.Output)})
				continue
			}
			names = append(names, g.Src.Name)
		}
		failed := r.compileSet(names)
		if msg, ok := failed["*"]; ok {
			return "", &buildViolation{Shape: "repository", Kind: "compile_fail", Detail: msg}
		}
		for _, nme := range names {
			if msg, bad := failed[nme]; bad {
				src := r.Srcs[nme]
				r.M.Violations = append(r.M.Violations, Violation{Prop: r.Prop, Key: "shape=" + src.Sig + ";kind=compile_fail", Case: "build", Shape: nme,
					Detail: fmt.Sprintf("struct shape %s (no known finding) — generated code does not compile:\n%s\n%s", src.Sig, src.Code, msg)})
				continue
			}
			pkgs = append(pkgs, nme)
		}
		r.M.Counters["universe_shapes_built"] = int64(len(pkgs) - len(gres))
	}
	bin, out, err := r.buildDriver("drv", pkgs, race)
	if err != nil {
		return "", &buildViolation{Shape: "portfolio", Kind: "compile_fail", Detail: "generated code for the portfolio (or the repository) does not compile: " + tail(out, 4000)}
	}
	return bin, nil
}

// buildViolation: the code under test could not even be generated/compiled
// for a shape that the property relies on.
type buildViolation struct {
	Shape, Kind, Detail string
}

func (b *buildViolation) Error() string { return b.Detail }

func contains(xs []string, x string) bool {
	for _, y := range xs {
		if x == y {
			return true
		}
	}
	return false
}

func sortedKeys(m map[string]struct{}) []string {
	out := make([]string, 0, len(m))
	for k := range m {
		out = append(out, k)
	}
	sort.Strings(out)
	return out
}

// universeSlice returns n shapes spread over the enumeration (<= 4 nodes) that
// have no C05 finding, named like C05 names them.
func universeSlice(kit string, n int) []shapes.Src {
	broken := knownShapeSigs(kit)
	all := shapes.EnumSrcs(4, 3)
	var out []shapes.Src
	for _, i := range spread(len(all), n*13/10) {
		s := all[i]
		if broken[s.Sig] || len(s.Sig) < 5 {
			continue
		}
		s.Meta = map[string]string{"universe": "1"}
		out = append(out, s)
		if len(out) >= n {
			break
		}
	}
	return out
}
