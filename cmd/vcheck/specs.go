package main

import (
	"fmt"
	"os"
)

// Spec describes how one property is checked.
type Spec struct {
	ID           string
	Title        string
	Level        string
	Rule         string
	PrivateCache bool
	Shards       int
	TimeoutQuick int // per-child watchdog, seconds
	TimeoutThor  int
	Shapes       []string
	Universe     int // number of clean enumerated shapes added to the portfolio
	EvalCounter  string
	Require      []string
	RequireFn    func(r *Run) []string
	Exhaustive   func(r *Run) bool
	Extra        func(r *Run, cov map[string]interface{})
	Assumptions  []string
	Custom       func(r *Run) ([]Crash, error)
}

var commonAssumptions = []string{
	"trusted base: Go toolchain/runtime, reflect, compress/gzip, github.com/golang/snappy, and the reference implementation under /verif/ref (validated against the Dremel paper's example, Encodings.md and thrift compact-protocol vectors)",
	"held means: held on the executions listed here; value domains, schedules and struct shapes are sampled or bounded as stated in DESIGN.md",
}

var propOrder = []string{"C01", "C02", "C03", "C04", "C05", "C06", "C07", "C08", "C09", "C10", "C11", "C12", "C13", "C14", "C15", "C16", "C17", "C18"}

var specs = map[string]*Spec{}

func addSpec(s *Spec) {
	if s.Shards == 0 {
		s.Shards = 16
	}
	if s.TimeoutQuick == 0 {
		s.TimeoutQuick = 900
	}
	if s.TimeoutThor == 0 {
		s.TimeoutThor = 3600
	}
	if s.EvalCounter == "" {
		s.EvalCounter = "cases"
	}
	s.Assumptions = append(append([]string{}, commonAssumptions...), s.Assumptions...)
	specs[s.ID] = s
}

var portfolioMain = []string{"p1", "p12", "p14", "p15", "p2", "p3", "p4", "p5", "p8"}
var portfolioAll = []string{"p1", "p10", "p11", "p12", "p14", "p15", "p2", "p3", "p4", "p5", "p6", "p7", "p8", "p9"}

func init() {
	addSpec(&Spec{ID: "C01", Title: "write-then-read returns exactly the records added", Level: "exploration",
		Shapes: portfolioMain, Universe: 100,
		Rule: "cases = (portfolio shapes + a fixed slice of 100 enumerated struct shapes without C05 finding, the latter with the structural enumeration only) x {structural enumeration, per-type extremes, random, run-structured, boundary-length lists, huge} x partitions x page sizes x 3 codecs, " +
			"each written through the generated writer (records scrambled after Add) and read back; distinct = (shape, record-structure sequence, partition, page size, codec); " +
			"non-trivial = the file (as parsed by the reference) has >= 2 pages in some chunk, or >= 2 row groups, or a list of >= 8 elements",
		Require: []string{"codec_uncompressed", "codec_snappy", "codec_gzip", "multipage_bool_required_files", "multipage_bool_optional_files", "multipage_repeated_files"},
	})
	addSpec(&Spec{ID: "C02", Title: "every written file is structurally valid Parquet with a truthful footer", Level: "exploration",
		Shapes: append(append([]string{}, portfolioAll...), "p13"), Universe: 100,
		Rule: "cases as C01 on portfolio P1-P9 plus 100 enumerated struct shapes without C05 finding; every file parsed by ref/pqfile and each sub-check (observed_counters check_*) evaluated; distinct = (shape, partition, page size, codec); " +
			"non-trivial = >= 2 row groups or >= 2 pages in a chunk",
		Require: []string{"multi_rowgroup_compressed_files", "check_schema_matches_struct", "check_contiguous", "check_page_sections", "check_rg_total_byte_size"},
	})
	addSpec(&Spec{ID: "C03", Title: "column data is the canonical Dremel striping", Level: "exploration",
		Shapes: portfolioAll, Universe: 160,
		Rule: "cases as C01 on portfolio P1-P9 plus 160 enumerated struct shapes without C05 finding; every column of every file decoded by the reference only and compared entry by entry with ref/dremel.Shred, then reassembled by ref/dremel.AssembleRecord; " +
			"distinct = (shape, record structure signature); non-trivial = record has a nil optional, an empty list or a list of >= 2 elements",
		Require: []string{"triples_compared", "records_assembled"},
		RequireFn: func(r *Run) []string {
			var out []string
			for col := range r.M.Sets["cols_with_intermediate_levels"] {
				if r.M.Counters["intermediate_def_"+col] == 0 {
					out = append(out, "column "+col+" never showed a definition level strictly between 0 and its maximum")
				}
			}
			return out
		},
	})
	addSpec(&Spec{ID: "C06", Title: "every Add/Write/Close history gives one row group per non-empty batch", Level: "exploration",
		Shapes: []string{"p12", "p2", "p5"},
		Rule: "all histories over {Add, Write} of length <= L (quick 8, thorough 12) then Close, x page sizes 1..4 x 3 codecs on P2, P5 and P12 (column names with a dot, a space, non-ASCII letters), plus seeded long histories (batches up to 3*page+1) and four histories with batches and pages of 8191..16385 records (uniform and mixed records: level runs with three-byte headers); " +
			"each checked online against a batch-list model (file valid per C02 checker, row groups = non-empty batches, column content = striping of those batches, read-back = their records); " +
			"distinct = (shape, codec, page, history); non-trivial = history has a Write with nothing pending, records pending at Close, or a batch >= page size",
		Require: []string{"class_empty_write_leading", "class_empty_write_middle", "class_empty_write_trailing", "class_empty_write_double", "class_batch_multiple_of_page",
			"class_batch_multiple_of_page_plus_1", "class_pending_at_close", "class_close_with_nothing_written", "long_histories", "big_histories"},
		Exhaustive: func(r *Run) bool { return false },
		Extra: func(r *Run, cov map[string]interface{}) {
			cov["exhaustive_part"] = fmt.Sprintf("all %d histories of length <= %d per (shape, codec, page) were run", r.M.Counters["exhaustive_histories"], r.M.Maxes["max_exhaustive_history_length"])
		},
	})
	addSpec(&Spec{ID: "C08", Title: "reading does not depend on how the source fragments its reads", Level: "fault_enumeration",
		Shapes: portfolioMain,
		Rule: "files = portfolio x 3 codecs x {single-page, multi-page, multi-row-group}, files with page bodies of exactly 2^k bytes and of 1.5 MiB, and per shape 3 (thorough 12) files of the reference writer (page checksums, unknown thrift fields, free level segmentation, mixed codecs); patterns = fixed chunk sizes (quick 1..17 + spread to 4096; thorough every 1..64,127,128,4095,4096), seeded random short reads, " +
			"data-with-EOF (alone and with chunk 1/7), every k-th call short, sources that also offer ReadByte/ReadAt/WriteTo, and sources whose read position is not 0 when they are handed over (end of file, offset 5); oracle = rows and error equal to the full-read baseline; distinct = (file, pattern); non-trivial = at least one call returned fewer bytes than requested",
		Require: []string{"short_reads", "pagedata_short_uncompressed", "pagedata_short_snappy", "pagedata_short_gzip", "foreign_file_cases", "cases_with_rich_source", "cases_with_source_not_at_offset_0"},
	})
	addSpec(&Spec{ID: "C09", Title: "a failed write to the destination is always reported", Level: "fault_enumeration",
		Shapes: portfolioMain,
		Rule: "workloads = portfolio x 3 codecs x {single-page, multi-page, multi-row-group}; for each, a fault-free run counts the sink writes N and then EVERY k in 0..N-1 is re-run with the k-th sink write failing, " +
			"in modes transient (only call k fails), sticky, partial (n=len/2 with the error) and full-count (n=len(p) with the error), again (transient, sticky) against a destination that also offers Flush/Sync/Close/WriteString/ReadFrom, and again with error VALUES a library may know (a *fs.PathError wrapping os.ErrClosed, io.EOF, io.ErrShortWrite); oracle = the API call in progress returns non-nil, no panic — also not from the calls a caller still makes after the error (the remaining Adds/Writes and Close are executed, their results not judged); distinct = (workload, k, mode), all non-trivial",
		Require:    []string{"site_leading_magic", "site_page_header", "site_page_body_required", "site_page_body_optional", "site_footer", "site_footer_length", "site_trailing_magic", "cases_with_rich_sink", "cases_with_a_well_known_error_value"},
		Exhaustive: func(r *Run) bool { return true },
		Extra: func(r *Run, cov map[string]interface{}) {
			cov["exhaustive_note"] = "exhaustive over the fault position k for every workload listed (all sink writes of the fault-free run); workloads themselves are sampled"
		},
	})
	addSpec(&Spec{ID: "C10", Title: "a failed read or seek never turns into silently wrong rows", Level: "fault_enumeration",
		Shapes: portfolioMain,
		Rule: "files as C08 (incl. one reference-written file per shape); a fault-free run counts the source calls N (Read and Seek; thrift reads byte-wise so N is in the thousands) and EVERY k in 0..N-1 is re-run with the k-th call failing, modes (0,err), (partial,err) and (0, io.EOF) — a source that ends early —, " +
			"once with a full-read source, once under chunk-7 fragmentation and once through a source that also offers ReadByte/ReadAt/WriteTo; oracle = error reported by the constructor or Error(), or else rows exactly the file's rows; no panic — also not from one more Scan after Next returned false; distinct = (file, frag, k, mode); non-trivial = the failing call is a seek or reads a page header or page body (faults inside the footer can only end in a constructor error)",
		Require: []string{"site_seek", "site_footer_length", "site_footer", "site_page_header", "site_page_body_uncompressed", "site_page_body_snappy", "site_page_body_gzip",
			"outcome_ctor_error", "outcome_iteration_error"},
		Exhaustive: func(r *Run) bool { return true },
		Extra: func(r *Run, cov map[string]interface{}) {
			cov["exhaustive_note"] = "exhaustive over the fault position k for every file listed; files are sampled"
		},
	})
	addSpec(&Spec{ID: "C11", Title: "a truncated file is never accepted", Level: "fault_enumeration",
		Shapes: portfolioMain,
		Rule: "EVERY strict prefix (length 0..len-1) of: the C08 workload files (0.3-12 KiB, 3 codecs), one ~180 KiB uncompressed file (byte patterns that look like footer lengths beyond one I/O buffer), " +
			"reference-written files whose footer tail reads as a plausible footer length (created_by chosen accordingly), and files whose string VALUES embed the footer of a shorter version of the same file followed by 8 arrangements of length words and magic, or the whole trailer / body of other files of the same struct and of a different struct, or (self-footer) the file's OWN trailer as the last bytes of its first and second row group; " +
			"the 0..12-byte prefixes and every prefix of a zero-row file, each read right after a valid zero-row file in the same process; plus the 1..8-byte tail cuts of ~800 tiny files of varying footer size; thorough adds 20-60 KiB files with targeted cuts; oracle = constructor or Error() reports an error, no panic — except for prefixes that the reference parser finds to be valid files by themselves (not judged); " +
			"distinct = (file, cut); non-trivial = the prefix ends in the bytes PAR1 (the trailer check alone cannot refuse it) or the cut lies in the footer, the trailer, or exactly at a page or row-group boundary",
		Require:    []string{"cut_footer", "cut_footer_length", "cut_trailer_magic", "cut_page_header", "cut_page_body", "cut_between_row_groups", "cut_page_boundary", "big_file_cuts", "resonant_footer_cuts", "embedded_footer_cuts", "trailer_files", "self_footer_row_groups_ending_in_own_trailer", "prefixes_ending_in_magic", "embedded_hostile_footers", "embedded_files_of_another_struct", "prefixes_read_right_after_a_valid_empty_file"},
		Exhaustive: func(r *Run) bool { return true },
		Extra: func(r *Run, cov map[string]interface{}) {
			cov["exhaustive_note"] = "exhaustive over prefix lengths for every small file; large files (thorough) use the targeted cut set"
		},
		Assumptions: []string{"a prefix that is by itself a well-formed Parquet file according to the reference parser (possible only when values embed footer + length + magic) is indistinguishable from a complete file and is not judged"},
	})
	addSpec(&Spec{ID: "C04", Title: "the reader decodes every conformant file of the supported subset", Level: "exploration",
		Shapes: portfolioMain,
		Rule: "files written by the independent reference writer (ref/pqfile) from shredded records, every encoding freedom drawn per file: level run segmentation (styles mixed/rle-only/bp-only/big-bp/tiny, " +
			"incl. length-1 RLE runs and > 63-group bit-packed runs), page boundaries per column at any record boundary, codec per chunk, literal-only or copy snappy, gzip levels, statistics present/partial/absent, " +
			"crc, optional and unknown thrift fields, long-form field headers, opaque bytes before the footer; each file re-validated by the reference parser, then read by the generated reader; " +
			"distinct = hash of the choice vector; all files non-trivial (none is what the repository's writer would emit)",
		Require: []string{"bitpacked_runs_over_63_groups", "run_header_bytes_2", "rle_runs_of_length_1", "streams_mixing_run_kinds", "mixed_codec_files", "files_with_per_column_page_splits",
			"option_created_by", "option_key_value_metadata", "option_column_orders", "option_gap_before_footer", "option_unknown_footer_fields",
			"pages_without_statistics", "pages_with_statistics_but_no_null_count", "pages_with_null_count", "multipage_optional_bool_chunks_without_null_count"},
	})
	addSpec(&Spec{ID: "C12", Title: "page statistics are sound bounds and exact null counts", Level: "exploration",
		Shapes: []string{"p1", "p2", "p8"},
		Rule: "files from P1/P2/P8 with value multisets aimed at accumulator bugs (all-negative, all-equal, extremes, unsigned above the signed maximum, float specials, all-NaN, hostile strings incl. the stats sentinel, " +
			"all-null pages), page sizes 1,2,3,5,1000; every page's Statistics compared with values and levels decoded by the reference in the column's order; distinct = case id; non-trivial = multi-page chunk or multi-row-group file",
		Require: []string{"null_count_checked_nonzero", "pages_all_null", "pages_with_nan", "pages_with_sentinel_string"},
		RequireFn: func(r *Run) []string {
			var out []string
			for _, t := range []string{"int32", "uint32", "int64", "uint64", "float", "double", "bytes"} {
				for _, rep := range []string{"required", "optional", "repeated"} {
					if r.M.Counters["minmax_"+t+"_"+rep] == 0 {
						out = append(out, "no page with min/max seen for "+t+" "+rep)
					}
				}
			}
			return out
		},
	})
	addSpec(&Spec{ID: "C16", Title: "introspection calls report exactly what is in the file", Level: "exploration",
		Shapes: portfolioMain,
		Rule: "library-written files (C01 workload, reduced) and foreign-written files (C04 writer, optional/unknown metadata present); ReadMetaData converted to a field-id tree by reflection and compared with the reference decode of the footer " +
			"(restricted to field ids the repository's thrift schema knows); PageHeaders and PageHeadersAtOffset(chunk start, chunk num_values / 0) compared header by header with an independent page walk; " +
			"distinct = layout (shape, row groups, pages per chunk, codecs, options); non-trivial = >= 2 row groups or a multi-page chunk",
		Require: []string{"files_library_written", "files_foreign_written", "files_with_3_pages_and_2_row_groups", "atoffset_calls", "files_without_rows", "files_foreign_unsupported_feature"},
	})
	addSpec(&Spec{ID: "C07", Title: "level streams are valid hybrid RLE; encode/decode are inverses", Level: "exploration",
		Shapes: []string{"p8"},
		Rule: "encoder: every level sequence up to a length bound per width (observed_maxima exhaustive_encoder_len_w*) plus run-structured sequences (constant/random/ramp segments of lengths around 8, 63 groups, 2- and 3-byte headers, at every alignment) " +
			"is encoded by internal/rle and judged by the strict specification decoder; decoder: the same sequences re-encoded by the reference under all segmentations (short) or 6 seeded styles and decoded by internal/rle, " +
			"checking values, padding < 8 and bytes consumed with trailing data present; the public column API (OptionalField.DoWrite/DoRead) repeats both directions; distinct = block / sequence id",
		Require:    []string{"encoder_closed_run_at_63_groups", "decoder_runs_over_63_groups", "decoder_rle_2byte_header", "encoder_header_bytes_2", "encoder_header_bytes_3", "decoder_rle_3byte_header", "decoder_bitpacked_3byte_header", "decoder_exhaustive_segmentations", "public_pages_written", "public_pages_read"},
		Exhaustive: func(r *Run) bool { return false },
		Extra: func(r *Run, cov map[string]interface{}) {
			cov["exhaustive_part"] = fmt.Sprintf("encoder: all sequences of length <= %d/%d/%d/%d for widths 1/2/3/4; decoder: all segmentations of all sequences of length <= %d/%d/%d/%d",
				r.M.Maxes["exhaustive_encoder_len_w1"], r.M.Maxes["exhaustive_encoder_len_w2"], r.M.Maxes["exhaustive_encoder_len_w3"], r.M.Maxes["exhaustive_encoder_len_w4"],
				r.M.Maxes["exhaustive_decoder_len_w1"], r.M.Maxes["exhaustive_decoder_len_w2"], r.M.Maxes["exhaustive_decoder_len_w3"], r.M.Maxes["exhaustive_decoder_len_w4"])
		},
	})
	addSpec(&Spec{ID: "C17", Title: "bit-packing of 8-value groups is exactly invertible and spec-ordered", Level: "exploration",
		Rule: "for the checked-in internal/bitpack AND a package freshly generated by cmd/bitpackgen from the current tree: every 8-tuple of w-bit values for w=1,2,3 (and w=4 in thorough: all 2^32) is packed, compared with a bit-at-a-time LSB-first reference and unpacked; " +
			"every w-byte group is unpacked, compared and re-packed; quick w=4 covers all tuples in which any 4 positions range over all 16 values and the rest over {0,15}, and byte groups from a nibble palette; " +
			"in situ: levels written/read through OptionalField.DoWrite/DoRead; distinct = (implementation, width, block)",
		EvalCounter: "evaluations_total",
		Require:     []string{"evals_w1_checked-in", "evals_w2_checked-in", "evals_w3_checked-in", "evals_w4_checked-in", "evals_w1_fresh", "evals_w2_fresh", "evals_w3_fresh", "evals_w4_fresh", "insitu_groups_written", "insitu_groups_read"},
		Exhaustive:  func(r *Run) bool { return r.Thorough() },
		Extra: func(r *Run, cov map[string]interface{}) {
			cov["exhaustive_widths"] = map[string]bool{"1": true, "2": true, "3": true, "4": r.Thorough()}
		},
		Custom: customC17,
	})
	addSpec(&Spec{ID: "C13", Title: "output depends only on an instance's own history; instances do not interfere", Level: "exploration",
		Rule: "histories = seeded writer runs (and reads of their output) over P1-P5, all codecs, page sizes 1..1000; family 1: each history re-run after 4 different polluter prefixes, bytes/rows must equal its first run; " +
			"family 2: the driver built with -race and the real bytebufferpool, G goroutines x N iterations each over own instances with Gosched/sleep injected at sink writes, outputs compared with sequential references, race reports counted from GORACE logs; " +
			"family 3: the same against a shadow allocator replacing bytebufferpool (poison on Put, quarantine, poison verified on Get, stale capacity visible); " +
			"distinct = (history, polluter) and interleaving signatures (goroutine switch sequence between sink writes); non-trivial = every repeated history; interleavings with >= 1 switch",
		Require: []string{"family1_runs", "race_detector_processes", "shadow_allocator_processes", "shadow_cross_goroutine_handovers", "goroutine_switches_between_sink_writes", "repeated_histories", "shadow_reuses", "histories_compared_across_processes", "polluters_with_failed_operations", "fault_then_verify_rounds", "interleaved_instance_pairs", "interleaved_pairs_sharing_an_option_slice", "cold_start_histories", "readers_whose_records_were_edited_in_place"},
		RequireFn: func(r *Run) []string {
			if r.M.Maxes["max_instances_in_flight"] < 2 {
				return []string{"no two instances were ever in flight at the same time"}
			}
			return nil
		},
		TimeoutQuick: 1200,
		Custom:       customC13,
	})
	addSpec(&Spec{ID: "C18", Title: "files outside the supported subset are refused, not misread", Level: "exploration",
		Shapes: portfolioMain,
		Rule: "carrier files written by the reference writer (3 row groups, up to 3 pages per chunk, each of the 3 supported codecs); one column chunk is rewritten to use one unsupported feature, really encoded: " +
			"dictionary page + RLE_DICTIONARY / PLAIN_DICTIONARY data page, dictionary page followed by plain pages, index page, data page v2, DELTA_BINARY_PACKED, DELTA_LENGTH_BYTE_ARRAY, DELTA_BYTE_ARRAY, BYTE_STREAM_SPLIT, RLE booleans, " +
			"BIT_PACKED definition / repetition levels, codecs LZO (opaque body), BROTLI, LZ4, ZSTD, LZ4_RAW and unassigned codec ids (8, 1000, -1), and encoding ids by number in the value / definition-level / repetition-level slot of a page header (8 without dictionary page, 10, 64, 255, and 256, 259, 65536, -1 which only look supported after truncation); the same on pages whose header exceeds 64 KiB and (shape p8) on files whose row groups exceed 1 MiB; every column x feature (quick: 2 (row group, page position) placements; thorough: all 9 x 3 codecs), each carrier read through a plain ReadSeeker and through a source that also offers ReadAt; " +
			"oracle = constructor or Error() reports an error, no panic; distinct = case id; non-trivial = feature placed in a later row group or a later page",
		Require: []string{"feature_dictionary_rle", "feature_dictionary_plain", "feature_dictionary_page_then_plain", "feature_index_page", "feature_data_page_v2", "feature_delta_binary_packed",
			"feature_delta_length_byte_array", "feature_delta_byte_array", "feature_byte_stream_split", "feature_rle_boolean", "feature_bit_packed_def_levels", "feature_bit_packed_rep_levels",
			"feature_codec_lzo", "feature_codec_brotli", "feature_codec_lz4", "feature_codec_zstd", "feature_codec_lz4_raw", "feature_codec_unassigned_8", "feature_codec_unassigned_1000", "feature_codec_negative", "feature_in_later_row_group", "feature_in_later_page", "feature_index_page_without_body", "feature_empty_dictionary_page_then_plain",
			"carriers_with_row_groups_over_1MiB", "reads_through_a_source_with_ReadAt", "feature_bighdr:data_page_v2", "feature_value_encoding_id_8", "feature_value_encoding_id_256", "feature_def_level_encoding_id_8", "feature_rep_level_encoding_id_256", "feature_def_level_encoding_id_-1"},
	})
	addSpec(&Spec{ID: "C05", Title: "parquetgen never emits silently wrong code", Level: "translation_validation",
		Rule: "programs = every struct shape of the bounded grammar (ordered forests of {leaf, group} x {required, optional, repeated}, depth <= 3, leaf types round-robin over the 8 primitives): " +
			"quick all 1209 shapes with <= 4 nodes plus, per primitive type, the 24 shapes with <= 2 nodes whose leaves all have that type, T{A W; B W} for every W with <= 3 nodes (struct type reuse: equal group names under different parents), and chains of three nested groups (leaves at depth 4) over {required, repeated}^3 x the 9 repetition pairs of two innermost leaves; thorough all 9471 with <= 5 nodes, the single-type shapes with <= 3 nodes and a fixed sample of 2000 with 6-8 nodes; each program is generated twice (determinism), compiled, and validated on its inputs: " +
			"every structurally distinct record (nil/non-nil x list length 0,1,2; cap 150) alone and together at page sizes 1, 2, 1000 and in 3 batches, plus seeded random multi-row-group files, through the C02, C03 and C01 monitors; " +
			"a failing program is a disagreement, matched against known_findings.json by (shape signature, failure kind); distinct = shape signature; non-trivial = shape has a group or an optional/repeated leaf",
		EvalCounter:  "cases",
		PrivateCache: true,
		TimeoutQuick: 1800, TimeoutThor: 7200,
		RequireFn: func(r *Run) []string {
			var out []string
			if r.Replay == nil && r.M.Counters["programs"] != r.M.Counters["programs_enumerated"] {
				out = append(out, fmt.Sprintf("%d programs processed of %d enumerated", r.M.Counters["programs"], r.M.Counters["programs_enumerated"]))
			}
			done := r.M.Counters["programs_run"] + r.M.Counters["kind_gen_fail"] + r.M.Counters["kind_compile_fail"] + r.M.Counters["kind_nondeterministic"]
			if r.Replay == nil && done != r.M.Counters["programs_enumerated"] {
				out = append(out, fmt.Sprintf("%d programs accounted for (run or failed to build) of %d enumerated", done, r.M.Counters["programs_enumerated"]))
			}
			if r.M.Counters["programs_clean_nontrivial"] == 0 {
				out = append(out, "no non-trivial program passed all monitors")
			}
			return out
		},
		Custom: customC05,
	})
	addSpec(&Spec{ID: "C14", Title: "excluded fields are inert and embedding equals inlining", Level: "translation_validation",
		Rule: "programs = base shapes from the C05 universe that have no C05 finding (quick 150 with <= 4 nodes, thorough 500 with <= 5 nodes) and their decorated variants: an excluded field (rotating over 31 forms: lower-case, blank, underscore, multi-name declarations (all unexported; an unexported name added to the declaration of an exported field), " +
			"non-ASCII lower-case, unexported map/pointer-to-struct/anonymous struct (also with tagged inner fields), embedded structs tagged parquet:\"-\", func with named parameters, parquet:\"-\" on string/map/chan/func/time.Time/slice/interface, other tag keys before/after incl. values with escaped quotes, spaces and colons) inserted at a position of a struct at any nesting level, one variant with a field at every position, " +
			"and variants in which a contiguous run of sibling fields is moved into an embedded struct (quick: 2+1+2 variants per base; thorough: every position and every run, and for one base in twelve every form at every position); one base in four is built a second time with field names numbered per struct (nested structs repeat the names around them; all embeddings); " +
			"every chunk of struct definitions is additionally generated in ONE process through gen.FromStruct and the output compared with the separate parquetgen processes' output; " +
			"oracle = files byte-identical to the base's for the same records (3 configurations), excluded fields (filled with junk before Add) zero after reading into a fresh struct, values read back; distinct = (base, decoration); non-trivial = decoration below the root or at every position",
		EvalCounter:  "cases",
		PrivateCache: true,
		TimeoutQuick: 1800, TimeoutThor: 7200,
		RequireFn: func(r *Run) []string {
			var out []string
			if r.Replay != nil {
				return nil
			}
			for _, f := range []string{"lower", "blank", "underscore", "nonascii_lower", "lower_map", "dash", "dash_map", "dash_chan", "dash_func", "dash_time", "dash_json_before", "dash_json_after"} {
				if r.M.Counters["form_deep_"+f] == 0 {
					out = append(out, "excluded-field form "+f+" was never applied below the root")
				}
			}
			if r.M.Counters["decor_embed"] == 0 || r.M.Counters["pairs_compared"] == 0 {
				out = append(out, "no embedding variant / no pair compared")
			}
			if r.M.Counters["in_process_generations_compared"] == 0 {
				out = append(out, "no struct definition was generated in the shared generator process")
			}
			if r.M.Counters["bases_with_repeated_field_names"] == 0 {
				out = append(out, "no base with field names repeated across nesting levels")
			}
			return out
		},
		Custom: customC14,
	})
	addSpec(&Spec{ID: "C15", Title: "a struct regenerated from a file reads that file back faithfully", Level: "translation_validation",
		Rule: "programs = every non-repeated struct shape (leaf types cycling over int32, int64, float32, float64, bool, string; uniquely named groups; half of them with column tags that differ from the Go field names: lower-case ASCII, a lower-case non-ASCII first letter, snake case) with <= 4 nodes plus a fixed spread of 80 five-node shapes (quick) or <= 5 nodes plus 2500 six-node shapes (thorough), " +
			"minus structures listed as C05 findings; three stages: the generated writer writes 3 files per shape (structural enumeration, extremes, random multi-row-group; for one shape in eight a fourth file of hundreds to thousands of one-record row groups whose footer exceeds 64 KiB, for one in 64 1 MiB), parquetgen -parquet regenerates struct + reader from the first (or, where present, the fourth) file, " +
			"the regenerated reader reads all three files; oracle = regenerated struct has the same column paths, nesting, optionality and physical types (by reflection under the README mapping) and returns exactly the written values; distinct = shape signature; non-trivial = shape has a group",
		EvalCounter:  "cases",
		PrivateCache: true,
		TimeoutQuick: 1800, TimeoutThor: 7200,
		RequireFn: func(r *Run) []string {
			if r.Replay != nil {
				return nil
			}
			var out []string
			if r.M.Counters["programs_clean_nested"] == 0 {
				out = append(out, "no nested shape went through all three stages")
			}
			if r.M.Counters["structs_regenerated_from_files_with_large_footers"] == 0 || r.M.Maxes["largest_file_regenerated_from_bytes"] < 1<<20 {
				out = append(out, "no struct was regenerated from a file with a footer above 64 KiB / 1 MiB")
			}
			acc := r.M.Counters["programs_run"] + r.M.Counters["kind_regen_fail"] + r.M.Counters["kind_compile_fail"]
			if acc != r.M.Counters["programs_enumerated"] {
				out = append(out, fmt.Sprintf("%d programs accounted for of %d enumerated", acc, r.M.Counters["programs_enumerated"]))
			}
			return out
		},
		Custom: customC15,
	})
}

func runCheck(prop, tier string, seed int64, only string) int {
	r, err := newRun(prop, tier, seed)
	if err != nil {
		fmt.Printf("INCONCLUSIVE property=%s reason=%v\n", prop, err)
		return 2
	}
	defer r.cleanup()
	r.Only = only
	return r.execute()
}

func runCheckReplay(rf *ReplayFile) int {
	r, err := newRun(rf.Prop, rf.Tier, rf.Seed)
	if err != nil {
		fmt.Fprintln(os.Stderr, err)
		return 3
	}
	defer r.cleanup()
	r.Only = rf.Case
	r.Replay = rf
	return r.execute()
}

func (r *Run) timeout() int {
	if r.Thorough() {
		return r.Spec.TimeoutThor
	}
	return r.Spec.TimeoutQuick
}

func (r *Run) execute() int {
	r.log("tier=%s seed=%d repo=%s work=%s", r.Tier, r.Seed, r.Repo, r.Work)
	if r.Spec.Custom != nil {
		crashes, err := r.Spec.Custom(r)
		return r.finish(crashes, err)
	}
	bin, err := r.portfolioBuild(r.Spec.Shapes, false, nil)
	if err != nil {
		return r.finish(nil, err)
	}
	r.log("built driver")
	n := r.Spec.Shards
	if r.Only != "" {
		n = 1
	}
	crashes := r.runShards(bin, n, r.timeout(), nil, nil)
	return r.finish(crashes, nil)
}

func warm() int {
	// build the std library and the dependencies once so that the first check
	// does not pay for it
	r, err := newRun("C01", "quick", 1)
	if err != nil {
		fmt.Fprintln(os.Stderr, err)
		return 1
	}
	defer r.cleanup()
	if _, err := r.portfolioBuild([]string{"p8"}, false, nil); err != nil {
		fmt.Fprintln(os.Stderr, "warm:", err)
		return 1
	}
	if _, _, err := r.buildDriver("drvrace", []string{"p8"}, true); err != nil {
		fmt.Fprintln(os.Stderr, "warm (race):", err)
		return 1
	}
	fmt.Println("warm: ok")
	return 0
}
