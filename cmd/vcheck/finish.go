package main

import (
	"crypto/sha1"
	"encoding/json"
	"fmt"
	"os"
	"path/filepath"
	"sort"
	"strings"
	"time"

	"github.com/parsyl/parquet/verifkit/shapes"
)

// KnownFindings is /verif/known_findings.json.
type KnownFindings struct {
	Findings []struct {
		Property string `json:"property"`
		Key      string `json:"key"`
		What     string `json:"what"`
	} `json:"findings"`
	Fixed []struct {
		Property string `json:"property"`
		Commit   string `json:"commit"`
		What     string `json:"what"`
	} `json:"fixed"`
}

func loadKnown(kit string) (*KnownFindings, error) {
	var k KnownFindings
	b, err := os.ReadFile(filepath.Join(kit, "known_findings.json"))
	if err != nil {
		if os.IsNotExist(err) {
			return &k, nil
		}
		return nil, err
	}
	if err := json.Unmarshal(b, &k); err != nil {
		return nil, err
	}
	return &k, nil
}

// ReplayFile is what `vcheck replay` consumes.
type ReplayFile struct {
	Prop   string      `json:"prop"`
	Tier   string      `json:"tier"`
	Seed   int64       `json:"seed"`
	Case   string      `json:"case"`
	Key    string      `json:"key"`
	Shape  string      `json:"shape,omitempty"`
	Detail string      `json:"detail"`
	Src    *shapes.Src `json:"src,omitempty"`
	Extra  interface{} `json:"extra,omitempty"`
}

func (r *Run) writeReplay(v Violation) string {
	dir := filepath.Join(r.evidenceDir(), "replay")
	os.MkdirAll(dir, 0o755)
	h := sha1.Sum([]byte(v.Prop + "|" + v.Key + "|" + v.Case))
	p := filepath.Join(dir, fmt.Sprintf("%s-%x.json", v.Prop, h[:6]))
	rf := ReplayFile{Prop: r.Prop, Tier: r.Tier, Seed: r.Seed, Case: v.Case, Key: v.Key, Shape: v.Shape, Detail: v.Detail, Extra: v.Extra}
	if s, ok := r.Srcs[v.Shape]; ok {
		rf.Src = &s
	}
	b, _ := json.MarshalIndent(rf, "", " ")
	os.WriteFile(p, b, 0o644)
	return p
}

// finish prints verdict lines, writes the evidence file and returns the exit
// code: 0 held, 1 violation, 2 inconclusive.
func (r *Run) finish(crashes []Crash, fatal error) int {
	known, kerr := loadKnown(r.Kit)
	if kerr != nil {
		fmt.Printf("INCONCLUSIVE property=%s reason=known_findings.json unreadable: %v\n", r.Prop, kerr)
		return 2
	}
	var inconclusive []string
	inconclusive = append(inconclusive, r.M.Inconclusive...)
	if fatal != nil {
		if bv, ok := fatal.(*buildViolation); ok {
			r.M.Violations = append(r.M.Violations, Violation{Prop: r.Prop, Key: "shape=" + bv.Shape + ";kind=" + bv.Kind, Case: "build", Shape: bv.Shape, Detail: bv.Detail})
		} else {
			inconclusive = append(inconclusive, "infrastructure: "+fatal.Error())
		}
	}
	for _, c := range crashes {
		if c.Timeout {
			inconclusive = append(inconclusive, fmt.Sprintf("watchdog killed shard %d during case %q", c.Shard, c.Case))
			continue
		}
		if c.Case == "" {
			inconclusive = append(inconclusive, fmt.Sprintf("shard %d died before its first case (%s): %s", c.Shard, c.Exit, tail([]byte(c.Output), 800)))
			continue
		}
		if c.NotRepeated {
			inconclusive = append(inconclusive, fmt.Sprintf("shard %d died once (%s; %s) during case %q; the case run again alone in a fresh process completes — not attributable to the code under test from this run alone:\n%s", c.Shard, c.Exit, c.Cause, c.Case, headTail([]byte(c.Output), 1200)))
			continue
		}
		// a child that was killed from OUTSIDE says nothing about the code under test: SIGKILL (the
		// kernel's OOM killer, an operator), SIGQUIT sent to it, or the Go runtime failing to get
		// memory from the operating system
		if !c.Confirmed && (strings.Contains(c.Exit, "signal: killed") || strings.HasPrefix(c.Cause, "SIGQUIT") ||
			strings.Contains(c.Cause, "out of memory") || strings.Contains(c.Cause, "cannot allocate memory")) {
			inconclusive = append(inconclusive, fmt.Sprintf("shard %d was killed from outside or ran out of memory (%s; %s) during case %q", c.Shard, c.Exit, c.Cause, c.Case))
			continue
		}
		r.M.Violations = append(r.M.Violations, Violation{Prop: r.Prop, Key: "kind=crash;case=" + c.Case, Case: c.Case,
			Detail: fmt.Sprintf("child process died (%s; %s) while running case %s — a fatal runtime error, not a recoverable panic:\n%s", c.Exit, c.Cause, c.Case, c.Output)})
	}

	if dump := os.Getenv("VERIF_DUMP_VIOLATIONS"); dump != "" {
		// maintenance aid (never used by registered commands): write every violation out
		b, _ := json.MarshalIndent(r.M.Violations, "", " ")
		os.WriteFile(dump, b, 0o644)
	}
	listed := map[string]string{}
	for _, f := range known.Findings {
		if f.Property == r.Prop {
			listed[f.Key] = f.What
		}
	}
	seenKnown := map[string]bool{}
	nviol := 0
	nknown := 0
	printed := 0
	var unlisted []Violation
	sort.SliceStable(r.M.Violations, func(i, j int) bool { return r.M.Violations[i].Key < r.M.Violations[j].Key })
	for _, v := range r.M.Violations {
		if what, ok := listed[v.Key]; ok {
			if !seenKnown[v.Key] {
				seenKnown[v.Key] = true
				nknown++
				fmt.Printf("KNOWN-FINDING: property=%s %s %s\n", r.Prop, v.Key, what)
			}
			continue
		}
		nviol++
		unlisted = append(unlisted, v)
	}
	seenKey := map[string]bool{}
	for _, v := range unlisted {
		if seenKey[v.Key] {
			continue
		}
		seenKey[v.Key] = true
		if printed < 40 {
			p := "-"
			if r.Replay == nil {
				p = r.writeReplay(v)
			}
			fmt.Printf("VIOLATION property=%s replay=%s\n", r.Prop, p)
			fmt.Printf("  key: %s\n  case: %s\n  %s\n", v.Key, v.Case, strings.ReplaceAll(clipStr(v.Detail, 1500), "\n", "\n  "))
			printed++
		}
	}
	if len(seenKey) > printed {
		fmt.Printf("  … and %d more distinct violation keys\n", len(seenKey)-printed)
	}

	// observation floors
	if r.Only == "" && fatal == nil {
		for _, k := range r.Spec.Require {
			if r.M.Counters[k] <= 0 && r.M.Maxes[k] <= 0 {
				inconclusive = append(inconclusive, "observation floor not met: "+k+" = 0")
			}
		}
		if r.Spec.RequireFn != nil {
			inconclusive = append(inconclusive, r.Spec.RequireFn(r)...)
		}
	}

	code := 0
	if nviol > 0 {
		code = 1
	} else if len(inconclusive) > 0 {
		code = 2
		for _, s := range inconclusive {
			fmt.Printf("INCONCLUSIVE property=%s reason=%s\n", r.Prop, clipStr(s, 600))
		}
	}
	if r.Replay != nil {
		if nviol > 0 || nknown > 0 {
			fmt.Printf("REPRODUCED property=%s case=%s\n", r.Prop, r.Only)
			return 1
		}
		fmt.Printf("NOT-REPRODUCED property=%s case=%s\n", r.Prop, r.Only)
		return code
	}
	if err := r.writeEvidence(nviol, nknown, len(seenKey), inconclusive); err != nil {
		fmt.Printf("INCONCLUSIVE property=%s reason=cannot write evidence: %v\n", r.Prop, err)
		if code == 0 {
			code = 2
		}
	}
	status := map[int]string{0: "HELD", 1: "VIOLATED", 2: "INCONCLUSIVE"}[code]
	fmt.Printf("%s property=%s tier=%s seed=%d evaluations=%d distinct_nontrivial=%d known_findings=%d wall=%.1fs\n", status, r.Prop, r.Tier, r.Seed,
		r.M.Counters[r.Spec.EvalCounter], len(r.M.Nontriv), nknown, time.Since(r.Start).Seconds())
	return code
}

func clipStr(s string, n int) string {
	if len(s) > n {
		return s[:n] + "…"
	}
	return s
}

func (r *Run) writeEvidence(nviol, nknown, nkeys int, inconclusive []string) error {
	cov := map[string]interface{}{}
	ev := r.M.Counters[r.Spec.EvalCounter]
	cov["evaluations"] = ev
	cov["distinct_nontrivial"] = len(r.M.Nontriv)
	cov["distinct_cases"] = len(r.M.Distinct)
	cov["rule"] = r.Spec.Rule
	samples := r.M.Samples
	if samples == nil {
		samples = []interface{}{}
	}
	cov["samples"] = samples
	cnt := map[string]int64{}
	for k, v := range r.M.Counters {
		cnt[k] = v
	}
	cov["observed_counters"] = cnt
	if len(r.M.Maxes) > 0 {
		cov["observed_maxima"] = r.M.Maxes
	}
	sets := map[string]interface{}{}
	for name, m := range r.M.Sets {
		ks := sortedKeys(m)
		if len(ks) > 60 {
			sets[name] = map[string]interface{}{"count": len(ks), "first": ks[:60]}
		} else {
			sets[name] = map[string]interface{}{"count": len(ks), "members": ks}
		}
	}
	if len(sets) > 0 {
		cov["observed_sets"] = sets
	}
	if r.Spec.Exhaustive != nil {
		cov["exhaustive"] = r.Spec.Exhaustive(r)
	}
	if r.Spec.Level == "translation_validation" {
		cov["programs"] = r.M.Counters["programs"]
		cov["disagreements_checked"] = r.M.Counters["disagreements_checked"]
	}
	cov["known_findings_reproduced"] = nknown
	cov["repo"] = r.Repo
	cov["distinct_violation_keys"] = nkeys
	if len(inconclusive) > 0 {
		cov["inconclusive_reasons"] = inconclusive
	}
	if r.Spec.Extra != nil {
		r.Spec.Extra(r, cov)
	}
	e := map[string]interface{}{
		"property_id": r.Prop,
		"tier":        r.Tier,
		"seed":        r.Seed,
		"level":       r.Spec.Level,
		"coverage":    cov,
		"assumptions": r.Spec.Assumptions,
		"wall_s":      time.Since(r.Start).Seconds(),
		"violations":  nviol,
	}
	b, err := json.MarshalIndent(e, "", " ")
	if err != nil {
		return err
	}
	dir := r.evidenceDir()
	os.MkdirAll(dir, 0o755)
	tmp := filepath.Join(dir, r.Prop+".json.tmp")
	if err := os.WriteFile(tmp, b, 0o644); err != nil {
		return err
	}
	if err := os.Rename(tmp, filepath.Join(dir, r.Prop+".json")); err != nil {
		return err
	}
	if r.Tier == "thorough" {
		// the deeper run's evidence is also kept under its own name, so that a later quick
		// run (which rewrites <id>.json) does not erase it
		return os.WriteFile(filepath.Join(dir, r.Prop+".thorough.json"), b, 0o644)
	}
	return nil
}

func replay(path string) int {
	b, err := os.ReadFile(path)
	if err != nil {
		fmt.Fprintln(os.Stderr, err)
		return 3
	}
	var rf ReplayFile
	if err := json.Unmarshal(b, &rf); err != nil {
		fmt.Fprintln(os.Stderr, err)
		return 3
	}
	return runCheckReplay(&rf)
}

// evidenceDir is /verif/evidence unless VERIF_EVIDENCE_DIR redirects it (used
// by the mutant self-test so that runs against scratch copies never overwrite
// the evidence of the real tree).
func (r *Run) evidenceDir() string {
	if d := os.Getenv("VERIF_EVIDENCE_DIR"); d != "" {
		return d
	}
	return filepath.Join(r.Kit, "evidence")
}
