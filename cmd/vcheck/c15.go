package main

import (
	"fmt"
	"os"
	"os/exec"
	"path/filepath"
	"strings"
	"sync"

	"github.com/parsyl/parquet/verifkit/shapes"
)

func customC15(r *Run) ([]Crash, error) {
	if err := r.initWork(nil); err != nil {
		return nil, err
	}
	pgen, err := r.buildTool("parquetgen", "github.com/parsyl/parquet/cmd/parquetgen")
	if err != nil {
		return nil, &buildViolation{Shape: "parquetgen", Kind: "compile_fail", Detail: err.Error()}
	}
	maxNodes := 4
	if r.Thorough() {
		maxNodes = 5
	}
	// structural signatures C05 lists as broken are C05's findings
	brokenStruct := map[string]bool{}
	for sig := range knownShapeSigs(r.Kit) {
		if i := strings.LastIndex(sig, "@"); i >= 0 {
			sig = sig[:i]
		}
		brokenStruct[sig] = true
	}
	var srcs []shapes.Src
	forests := shapes.Enumerate(maxNodes, 3, true)
	if !r.Thorough() {
		// plus a fixed spread of five-node shapes (several sibling groups followed by further
		// children only exist from five nodes on)
		five := shapes.Enumerate(5, 3, true)[len(forests):]
		for _, i := range spread(len(five), 80) {
			forests = append(forests, five[i])
		}
	}
	if r.Thorough() {
		// plus a fixed sample of six-node shapes
		six := shapes.Enumerate(6, 3, true)[len(forests):]
		for _, i := range spread(len(six), 2500) {
			forests = append(forests, six[i])
		}
	}
	skipped := 0
	for i, f := range forests {
		sig := shapes.Sig(f)
		if brokenStruct[sig] {
			skipped++
			continue
		}
		off := shapes.SigOffset(sig, 6)
		o := shapes.EmitOpts{Prims: shapes.SignedPrims(), Offset: off, LowerTags: i%2 == 1, TagStyle: (i / 2) % 3}
		full := fmt.Sprintf("%s@%d", sig, off)
		if o.LowerTags {
			full += []string{"t", "tu", "ts"}[o.TagStyle]
		}
		srcs = append(srcs, shapes.Src{Name: fmt.Sprintf("c%05d", i), Type: "T", Sig: full, Code: shapes.Source(f, o)})
	}
	if r.Replay != nil && r.Replay.Src != nil {
		srcs = []shapes.Src{*r.Replay.Src}
	}
	r.M.Counters["programs_enumerated"] = int64(len(srcs))
	r.M.Counters["shapes_skipped_as_c05_findings"] = int64(skipped)
	filesDir := filepath.Join(r.Work, "files")
	os.MkdirAll(filesDir, 0o755)
	var crashes []Crash
	const chunkSize = 350
	for ci, start := 0, 0; start < len(srcs); ci, start = ci+1, start+chunkSize {
		end := start + chunkSize
		if end > len(srcs) {
			end = len(srcs)
		}
		chunk := srcs[start:end]
		// stage 1: originals write their files
		binA, outs, err := r.buildShapes(pgen, chunk, ci*2, false)
		if err != nil {
			return crashes, err
		}
		r.M.Counters["programs"] += int64(len(chunk))
		failed := map[string]bool{}
		for _, o := range outs {
			failed[o.Src.Name] = true
			if strings.Count(o.Src.Sig, "l")+strings.Count(o.Src.Sig, "g") >= 6 {
				// six-node shapes are outside C05's enumerated bound: a source struct for which no
				// code can be generated has no file to regenerate from; counted, not judged
				r.M.Counters["six_node_source_shapes_that_do_not_build"]++
				r.M.Counters["programs_enumerated"]--
				continue
			}
			r.M.Inconclusive = append(r.M.Inconclusive, fmt.Sprintf("source shape %s (%s) does not build (%s): a C05 matter, yet not listed there", o.Src.Name, o.Src.Sig, o.Kind))
		}
		if binA == "" {
			continue
		}
		saved := r.Only
		r.Only = ""
		crashes = append(crashes, r.runShards(binA, r.Spec.Shards, r.timeout(), []string{"-args", "mode=write,dir=" + filesDir}, nil)...)
		r.Only = saved
		// stage 2: parquetgen -parquet on one file per shape
		var regen []shapes.Src
		var mu sync.Mutex
		var wg sync.WaitGroup
		sem := make(chan struct{}, 16)
		var good []string
		for _, s := range chunk {
			if failed[s.Name] {
				continue
			}
			good = append(good, s.Name)
			wg.Add(1)
			go func(s shapes.Src) {
				defer wg.Done()
				sem <- struct{}{}
				defer func() { <-sem }()
				rn := "r" + s.Name[1:]
				dir := filepath.Join(r.Work, rn)
				os.MkdirAll(dir, 0o755)
				file := filepath.Join(filesDir, s.Name, "f0.parquet")
				if big := filepath.Join(filesDir, s.Name, "f3.parquet"); fileExists(big) {
					// the many-row-group file (footer > 64 KiB) of this shape
					file = big
					bigMu.Lock()
					r.M.Counters["structs_regenerated_from_files_with_large_footers"]++
					if st, err := os.Stat(big); err == nil && st.Size() > r.M.Maxes["largest_file_regenerated_from_bytes"] {
						r.M.Maxes["largest_file_regenerated_from_bytes"] = st.Size()
					}
					bigMu.Unlock()
				}
				c := exec.Command("timeout", "-s", "KILL", "60", pgen, "-parquet", file, "-type", "T", "-package", rn, "-struct-output", "types.go", "-output", "parquet.go")
				c.Dir = dir
				c.Env = r.Env
				out, err := c.CombinedOutput()
				mu.Lock()
				defer mu.Unlock()
				if err != nil {
					r.M.Counters["kind_regen_fail"]++
					r.M.Violations = append(r.M.Violations, Violation{Prop: r.Prop, Key: "shape=" + s.Sig + ";kind=regen_fail", Case: s.Name, Shape: s.Name,
						Detail: fmt.Sprintf("struct shape %s:\n%s\nparquetgen -parquet on the file written for it failed: %v\n%s", s.Sig, s.Code, err, tail(out, 1500))})
					os.RemoveAll(dir)
					return
				}
				rs := shapes.Src{Name: rn, Type: "T", Sig: s.Sig, Meta: map[string]string{"orig": s.Name}}
				if err := shapes.EmitGlue(r.Work, rs); err != nil {
					return
				}
				r.Srcs[rn] = rs
				regen = append(regen, rs)
			}(s)
		}
		wg.Wait()
		// stage 3: regenerated packages read the files
		var rnames []string
		for _, g := range regen {
			rnames = append(rnames, g.Name)
		}
		cf := r.compileSet(rnames)
		if msg, ok := cf["*"]; ok {
			return crashes, fmt.Errorf("build failure not attributable to a regenerated package: %s", msg)
		}
		var rgood []string
		for _, g := range regen {
			if msg, bad := cf[g.Name]; bad {
				src, _ := os.ReadFile(filepath.Join(r.Work, g.Name, "types.go"))
				r.M.Counters["kind_compile_fail"]++
				r.M.Violations = append(r.M.Violations, Violation{Prop: r.Prop, Key: "shape=" + g.Sig + ";kind=compile_fail", Case: g.Meta["orig"], Shape: g.Meta["orig"],
					Detail: fmt.Sprintf("struct shape %s: the code regenerated from its file does not compile:\n%s\nregenerated struct:\n%s", g.Sig, msg, clipStr(string(src), 1500))})
				continue
			}
			rgood = append(rgood, g.Name)
		}
		if len(rgood) > 0 {
			binB, out, err := r.buildDriver(fmt.Sprintf("drv%d", ci*2+1), append(append([]string{}, good...), rgood...), false)
			if err != nil {
				return crashes, fmt.Errorf("stage-3 driver build failed: %s", tail(out, 3000))
			}
			n := r.Spec.Shards
			if r.Only != "" {
				n = 1
			}
			crashes = append(crashes, r.runShards(binB, n, r.timeout(), []string{"-args", "mode=read,dir=" + filesDir}, nil)...)
		}
		r.log("chunk %d: %d shapes, %d regenerated, %d compiled", ci, len(chunk), len(regen), len(rgood))
		r.removeShapes(chunk, ci*2)
		r.removeShapes(regen, ci*2+1)
		for _, s := range chunk {
			os.RemoveAll(filepath.Join(filesDir, s.Name))
		}
	}
	r.M.Counters["disagreements_checked"] = int64(len(distinctShapes(r.M.Violations)))
	if len(srcs) > 0 {
		r.M.Samples = append([]interface{}{map[string]interface{}{"shape": srcs[len(srcs)/2].Sig, "source": srcs[len(srcs)/2].Code}}, r.M.Samples...)
	}
	return crashes, nil
}

var bigMu sync.Mutex

func fileExists(p string) bool {
	_, err := os.Stat(p)
	return err == nil
}
