package main

import (
	"bytes"
	"fmt"
	"os"
	"path/filepath"
	"strings"

	"github.com/parsyl/parquet/verifkit/shapes"
)

// cleanForests returns the enumerated forests (<= maxNodes nodes) that have no
// C05 entry in known_findings.json, with their signatures and offsets.
func cleanForests(kit string, maxNodes int, noRepeated bool) ([][]*shapes.Node, []string) {
	broken := knownShapeSigs(kit)
	var fs [][]*shapes.Node
	var sigs []string
	for _, f := range shapes.Enumerate(maxNodes, 3, noRepeated) {
		sig := shapes.Sig(f)
		full := fmt.Sprintf("%s@%d", sig, shapes.SigOffset(sig, 8))
		if broken[full] {
			continue
		}
		fs = append(fs, f)
		sigs = append(sigs, full)
	}
	return fs, sigs
}

func spread(n, k int) []int {
	if k >= n {
		out := make([]int, n)
		for i := range out {
			out[i] = i
		}
		return out
	}
	out := make([]int, 0, k)
	for i := 0; i < k; i++ {
		out = append(out, i*n/k)
	}
	return out
}

func customC14(r *Run) ([]Crash, error) {
	if err := r.initWork(nil); err != nil {
		return nil, err
	}
	pgen, err := r.buildTool("parquetgen", "github.com/parsyl/parquet/cmd/parquetgen")
	if err != nil {
		return nil, &buildViolation{Shape: "parquetgen", Kind: "compile_fail", Detail: err.Error()}
	}
	maxNodes, nBases := 4, 150
	if r.Thorough() {
		maxNodes, nBases = 5, 500
	}
	// The candidate list is a fixed spread over ALL enumerated shapes; shapes that C05
	// lists as broken are then dropped. This way a change of C05's list adds or removes
	// individual bases without shifting the others (finding keys stay stable).
	allForests := shapes.Enumerate(maxNodes, 3, false)
	broken := knownShapeSigs(r.Kit)
	var forests [][]*shapes.Node
	var sigs []string
	var slot []int
	for si, fi := range spread(len(allForests), nBases*13/10) {
		f := allForests[fi]
		sig := shapes.Sig(f)
		full := fmt.Sprintf("%s@%d", sig, shapes.SigOffset(sig, 8))
		if broken[full] || len(sig) < 3 {
			continue
		}
		forests = append(forests, f)
		sigs = append(sigs, full)
		slot = append(slot, si)
	}
	pick := make([]int, len(forests))
	cand := make([]int, len(forests))
	for i := range forests {
		pick[i] = i
		cand[i] = i
	}
	type group struct {
		base shapes.Src
		vars []shapes.Src
	}
	var groups []group
	for _, pi := range pick {
		fi := cand[pi]
		bi := slot[fi]
		f := forests[fi]
		for _, local := range []bool{false, true} {
			// one base in four is built a second time with field names numbered per struct, so
			// that nested structs repeat the names of the structs around them
			if local && (bi%4 != 1 || !strings.Contains(sigs[fi], "g")) {
				continue
			}
			sig := sigs[fi]
			off := shapes.SigOffset(shapes.Sig(f), 8)
			o := shapes.EmitOpts{Offset: off, LocalNames: local}
			bn := fmt.Sprintf("b%04d", bi)
			if local {
				sig += "n"
				bn += "n"
				r.M.Counters["bases_with_repeated_field_names"]++
			}
			g := group{base: shapes.Src{Name: bn, Type: "T", Sig: sig, Code: shapes.Source(f, o), Meta: map[string]string{"role": "base"}}}
			ex := shapes.ExcludedVariants(f, o, bi*3)
			em := shapes.EmbedVariants(f, o)
			var chosen []shapes.Variant
			if r.Thorough() {
				chosen = append(append(chosen, ex...), em...)
				if len(groups)%12 == 0 {
					// every form at every position for one base in twelve
					chosen = append(chosen, shapes.ExcludedAllForms(f, o)...)
					r.M.Counters["bases_with_every_form_at_every_position"]++
				}
			} else if local {
				// repeated names matter for embedding: every run
				chosen = append(chosen, em...)
			} else {
				// two single insertions (rotating), the all-positions variant, two embeddings (rotating)
				singles := ex[:len(ex)-1]
				chosen = append(chosen, singles[bi%len(singles)], singles[(bi*7+3)%len(singles)], ex[len(ex)-1])
				if len(em) > 0 {
					chosen = append(chosen, em[bi%len(em)], em[(bi*5+1)%len(em)])
				}
			}
			seen := map[string]bool{}
			for vi, v := range chosen {
				if seen[v.Kind+v.Desc] {
					continue
				}
				seen[v.Kind+v.Desc] = true
				g.vars = append(g.vars, shapes.Src{Name: fmt.Sprintf("%sv%02d", bn, vi), Type: "T", Sig: sig + "+" + v.Desc, Code: v.Code,
					Meta: map[string]string{"base": bn, "kind": v.Kind, "decor": v.Desc, "depth": fmt.Sprint(v.Depth), "forms": strings.Join(v.Forms, ","), "ctx": v.Ctx}})
			}
			groups = append(groups, g)
		}
	}
	if r.Replay != nil {
		// rebuild only the group of the replayed variant
		var only []group
		for _, g := range groups {
			for _, v := range g.vars {
				if v.Name == r.Replay.Case || (r.Replay.Src != nil && v.Code == r.Replay.Src.Code) {
					only = []group{{base: g.base, vars: []shapes.Src{v}}}
				}
			}
		}
		groups = only
	}
	var crashes []Crash
	total := 0
	for _, g := range groups {
		total += 1 + len(g.vars)
	}
	r.M.Counters["programs_enumerated"] = int64(total)
	const perChunk = 70 // groups per chunk
	for ci, start := 0, 0; start < len(groups); ci, start = ci+1, start+perChunk {
		end := start + perChunk
		if end > len(groups) {
			end = len(groups)
		}
		var srcs []shapes.Src
		for _, g := range groups[start:end] {
			srcs = append(srcs, g.base)
			srcs = append(srcs, g.vars...)
		}
		bin, outs, err := r.buildShapes(pgen, srcs, ci, false)
		if err != nil {
			return crashes, err
		}
		r.M.Counters["programs"] += int64(len(srcs))
		baseBroken := map[string]string{}
		for _, o := range outs {
			if o.Src.Meta["role"] == "base" {
				baseBroken[o.Src.Name] = o.Kind
			}
		}
		for _, o := range outs {
			if o.Src.Meta["role"] == "base" {
				r.M.Inconclusive = append(r.M.Inconclusive, fmt.Sprintf("base shape %s (%s) does not build (%s): a C05 matter, yet it is not listed there", o.Src.Name, o.Src.Sig, o.Kind))
				continue
			}
			if _, bb := baseBroken[o.Src.Meta["base"]]; bb {
				continue
			}
			bsig := r.Srcs[o.Src.Meta["base"]].Sig
			r.M.Counters["variant_build_failures"]++
			// a variant that does not build: the failure belongs to the position, not to the form of
			// the inserted field (the generator's unkeyed struct literals break for ANY extra field),
			// so the key names the position only and stays stable when forms are added
			decorKey := o.Src.Meta["decor"]
			if o.Src.Meta["kind"] == "excluded" {
				if i := strings.Index(decorKey, "+"); i >= 0 {
					decorKey = decorKey[:i]
				}
			}
			r.M.Violations = append(r.M.Violations, Violation{Prop: r.Prop, Key: fmt.Sprintf("base=%s;%s=%s;kind=%s", bsig, o.Src.Meta["kind"], decorKey, o.Kind),
				Case: o.Src.Name, Shape: o.Src.Name,
				Detail: fmt.Sprintf("base shape %s builds, its variant (%s %s) does not:\n%s\n%s", bsig, o.Src.Meta["kind"], o.Src.Meta["decor"], o.Src.Code, o.Detail), Extra: map[string]interface{}{"base": o.Src.Meta["base"]}})
		}
		if bin != "" {
			n := r.Spec.Shards
			if r.Only != "" {
				n = 1
			}
			crashes = append(crashes, r.runShards(bin, n, r.timeout(), nil, nil)...)
		}
		// the same inputs through ONE generator process
		differ, compared, berr := r.batchGenerate(srcs)
		if berr != nil {
			r.M.Inconclusive = append(r.M.Inconclusive, "in-process generation helper: "+berr.Error())
		}
		r.M.Counters["in_process_generations_compared"] += int64(compared)
		for _, s := range srcs {
			msg, bad := differ[s.Name]
			if !bad {
				continue
			}
			bsig, what := s.Sig, "base"
			if s.Meta["role"] != "base" {
				bsig = r.Srcs[s.Meta["base"]].Sig
				what = s.Meta["kind"] + "=" + s.Meta["decor"]
			}
			r.M.Violations = append(r.M.Violations, Violation{Prop: r.Prop, Key: fmt.Sprintf("base=%s;%s;kind=generator_output_depends_on_earlier_calls", bsig, what),
				Case: s.Name, Shape: s.Name, Detail: fmt.Sprintf("struct definition %s (%s of base %s), generated after %d other definitions in one process through gen.FromStruct: %s\n%s", s.Name, what, bsig, len(srcs), msg, s.Code)})
		}
		r.log("chunk %d: %d programs, %d build-side failures", ci, len(srcs), len(outs))
		r.removeShapes(srcs, ci)
	}
	if len(groups) > 0 && len(groups[0].vars) > 0 {
		g := groups[len(groups)/2]
		r.M.Samples = append([]interface{}{map[string]interface{}{"base": g.base.Sig, "base_source": g.base.Code, "variant": g.vars[0].Meta["decor"], "variant_source": g.vars[0].Code}}, r.M.Samples...)
	}
	r.M.Counters["disagreements_checked"] = int64(len(distinctShapes(r.M.Violations)))
	return crashes, nil
}

const genManySrc = `package main

// genmany: generates code for many struct definitions in ONE process, in the
// given order, through the generator's exported entry point.
import (
	"bufio"
	"fmt"
	"os"
	"strings"

	"github.com/parsyl/parquet/cmd/parquetgen/gen"
)

func one(dir, typ, pkg, out string) (msg string) {
	defer func() {
		if e := recover(); e != nil {
			msg = fmt.Sprintf("panic: %v", e)
		}
	}()
	if err := os.Chdir(dir); err != nil {
		return err.Error()
	}
	if err := gen.FromStruct("types.go", out, typ, pkg, "", true); err != nil {
		return "error: " + err.Error()
	}
	return ""
}

func main() {
	f, err := os.Open(os.Args[1])
	if err != nil {
		fmt.Println(err)
		os.Exit(2)
	}
	sc := bufio.NewScanner(f)
	for sc.Scan() {
		p := strings.Split(sc.Text(), "\t")
		if len(p) != 4 {
			continue
		}
		msg := one(p[0], p[1], p[2], p[3])
		fmt.Printf("DONE\t%s\t%s\n", p[0], msg)
	}
}
`

// batchGenerate runs the generator on every source of the chunk that was
// generated successfully by its own parquetgen process, this time in ONE
// process and in order (the sources of a chunk reuse the type names T, G1,
// E1 … with different definitions), and returns the names whose output
// differs from what the separate process produced.
func (r *Run) batchGenerate(srcs []shapes.Src) (differ map[string]string, compared int, err error) {
	differ = map[string]string{}
	dir := filepath.Join(r.Work, "cmd", "genmany")
	tool := filepath.Join(r.Work, "bin", "genmany")
	if _, e := os.Stat(tool); e != nil {
		if err := os.MkdirAll(dir, 0o755); err != nil {
			return nil, 0, err
		}
		if err := os.WriteFile(filepath.Join(dir, "main.go"), []byte(genManySrc), 0o644); err != nil {
			return nil, 0, err
		}
		if _, err := r.buildTool("genmany", "github.com/parsyl/parquet/verifwork/cmd/genmany"); err != nil {
			return nil, 0, err
		}
	}
	var list strings.Builder
	var names []string
	for _, s := range srcs {
		d := filepath.Join(r.Work, s.Name)
		if _, e := os.Stat(filepath.Join(d, "parquet.go")); e != nil {
			continue
		}
		fmt.Fprintf(&list, "%s\t%s\t%s\t%s\n", d, s.Type, s.Name, "parquet.batch.txt")
		names = append(names, s.Name)
	}
	lf := filepath.Join(r.Work, "genmany.list")
	if err := os.WriteFile(lf, []byte(list.String()), 0o644); err != nil {
		return nil, 0, err
	}
	out, _ := r.cmd(r.Work, nil, "timeout", "-s", "KILL", "600", tool, lf)
	done := map[string]string{}
	for _, l := range strings.Split(string(out), "\n") {
		p := strings.SplitN(l, "\t", 3)
		if len(p) == 3 && p[0] == "DONE" {
			done[filepath.Base(p[1])] = p[2]
		}
	}
	for _, n := range names {
		msg, ok := done[n]
		if !ok {
			continue // the helper died (log.Fatal inside the generator): not compared
		}
		compared++
		d := filepath.Join(r.Work, n)
		a, _ := os.ReadFile(filepath.Join(d, "parquet.go"))
		b, _ := os.ReadFile(filepath.Join(d, "parquet.batch.txt"))
		os.Remove(filepath.Join(d, "parquet.batch.txt"))
		switch {
		case msg != "":
			differ[n] = "generation in its own process succeeded, the same call after earlier calls in one process failed: " + msg
		case !bytes.Equal(a, b):
			differ[n] = fmt.Sprintf("the generated code differs from what a separate parquetgen process produces for the same input (%d vs %d bytes): %s", len(b), len(a), firstDiffLine(a, b))
		}
	}
	return differ, compared, nil
}

func firstDiffLine(a, b []byte) string {
	la, lb := strings.Split(string(a), "\n"), strings.Split(string(b), "\n")
	for i := 0; i < len(la) && i < len(lb); i++ {
		if la[i] != lb[i] {
			return fmt.Sprintf("line %d: separate %q, in-process %q", i+1, la[i], lb[i])
		}
	}
	return fmt.Sprintf("%d vs %d lines", len(la), len(lb))
}
