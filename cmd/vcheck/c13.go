package main

import (
	"fmt"
	"os"
	"path/filepath"
	"regexp"
	"strings"
)

var c13Shapes = []string{"p1", "p10", "p11", "p14", "p15", "p2", "p3", "p4", "p5"}

// customC13 runs the three families: history independence (plain build),
// concurrent instances under the race detector (real bytebufferpool), and
// single-threaded + concurrent runs against the shadow allocator.
func customC13(r *Run) ([]Crash, error) {
	var crashes []Crash
	only := r.Only
	mode := ""
	if r.Replay != nil {
		if ex, ok := r.Replay.Extra.(map[string]interface{}); ok {
			mode, _ = ex["mode"].(string)
		}
	}
	// family 1
	bin, err := r.portfolioBuild(c13Shapes, false, nil)
	if err != nil {
		return nil, err
	}
	if only == "" || strings.HasPrefix(only, "indep/") {
		n := r.Spec.Shards
		if only != "" {
			n = 1
		}
		crashes = append(crashes, r.runShards(bin, n, r.timeout(), []string{"-args", "mode=indep"}, nil)...)
		r.M.Counters["family1_runs"]++
	}
	if only != "" && only != "conc" {
		return crashes, nil
	}
	// family 2: race detector, real pool
	if mode == "" || mode == "conc" {
		rbin, out, err := r.buildDriver("drvrace", c13Shapes, true)
		if err != nil {
			return crashes, fmt.Errorf("race build failed: %v\n%s", err, tail(out, 2000))
		}
		r.log("built race driver")
		logBase := filepath.Join(r.Work, "racelog")
		procs := 2
		if r.Thorough() {
			procs = 3
		}
		saved := r.Only
		r.Only = ""
		iters := "30"
		if r.Thorough() {
			iters = "100"
		}
		cr := r.runShards(rbin, procs, r.timeout(), []string{"-args", "mode=conc,iters=" + iters}, []string{"GORACE=halt_on_error=0 log_path=" + logBase})
		r.Only = saved
		// with halt_on_error=0 a racy run exits 66; that is not a crash
		for _, c := range cr {
			if !strings.Contains(c.Exit, "exit status 66") {
				crashes = append(crashes, c)
			}
		}
		r.M.Counters["race_detector_processes"] += int64(procs)
		// cold start: processes whose first use of the library is concurrent
		cold := 4
		saved = r.Only
		r.Only = ""
		cr = r.runShards(rbin, cold, r.timeout(), []string{"-args", "mode=cold"}, []string{"GORACE=halt_on_error=0 log_path=" + logBase})
		r.Only = saved
		for _, c := range cr {
			if !strings.Contains(c.Exit, "exit status 66") {
				crashes = append(crashes, c)
			}
		}
		r.M.Counters["cold_start_processes"] += int64(cold)
		r.collectRaceReports(logBase)
	}
	// family 3: shadow allocator
	sub := *r
	sub.Work = filepath.Join(r.Work, "shadow")
	if err := os.MkdirAll(sub.Work, 0o755); err != nil {
		return crashes, err
	}
	sbin, err := sub.portfolioBuild(c13Shapes, false, map[string]string{"github.com/valyala/bytebufferpool": filepath.Join(r.Kit, "instr", "bytebufferpool")})
	if err != nil {
		return crashes, err
	}
	r.log("built shadow-allocator driver")
	saved := r.Only
	sub.Only = ""
	siters := "60"
	if r.Thorough() {
		siters = "200"
	}
	cr := sub.runShards(sbin, 2, r.timeout(), []string{"-args", "mode=conc,iters=" + siters}, nil)
	crashes = append(crashes, cr...)
	cr = sub.runShards(sbin, 4, r.timeout(), []string{"-args", "mode=indep"}, nil)
	crashes = append(crashes, cr...)
	r.Only = saved
	r.M.Counters["shadow_allocator_processes"] += 6
	r.compareDigests()
	return crashes, nil
}

var raceFrame = regexp.MustCompile(`^\s+([^\s(]+)\(`)

func (r *Run) collectRaceReports(logBase string) {
	files, _ := filepath.Glob(logBase + ".*")
	seen := map[string]bool{}
	for _, f := range files {
		b, err := os.ReadFile(f)
		if err != nil {
			continue
		}
		blocks := strings.Split(string(b), "==================")
		for _, blk := range blocks {
			if !strings.Contains(blk, "WARNING: DATA RACE") {
				continue
			}
			r.M.Counters["race_reports_raw"]++
			// signature: the first function of each of the two stacks
			var tops []string
			lines := strings.Split(blk, "\n")
			for i, l := range lines {
				if (strings.HasPrefix(l, "Write at") || strings.HasPrefix(l, "Read at") || strings.HasPrefix(l, "Previous write at") || strings.HasPrefix(l, "Previous read at")) && i+1 < len(lines) {
					if m := raceFrame.FindStringSubmatch(lines[i+1]); m != nil {
						fn := m[1]
						if j := strings.LastIndex(fn, "/"); j >= 0 {
							fn = fn[j+1:]
						}
						tops = append(tops, fn)
					}
				}
			}
			sig := strings.Join(tops, "|")
			if seen[sig] {
				continue
			}
			seen[sig] = true
			r.M.Counters["race_reports_deduplicated"]++
			r.M.Violations = append(r.M.Violations, Violation{Prop: "C13", Key: "mode=conc;kind=data_race;frames=" + sig, Case: "conc",
				Detail: "the race detector reported a data race between separate writer/reader instances:\n" + clipStr(blk, 3000), Extra: map[string]interface{}{"mode": "conc"}})
		}
	}
}

// compareDigests: every process computed the bytes of every history after a different prior
// process history (and with different neighbours); one history must have one digest.
func (r *Run) compareDigests() {
	byID := map[string]map[string]bool{}
	for e := range r.M.Sets["history_digests"] {
		i := strings.LastIndex(e, "=")
		if i < 0 {
			continue
		}
		id, dg := e[:i], e[i+1:]
		if byID[id] == nil {
			byID[id] = map[string]bool{}
		}
		byID[id][dg] = true
	}
	r.M.Counters["histories_compared_across_processes"] = int64(len(byID))
	for id, dgs := range byID {
		if len(dgs) == 1 && (dgs["WRITE-FAILED"] || dgs["READ-FAILED"]) {
			r.M.Inconclusive = append(r.M.Inconclusive, fmt.Sprintf("history %s fails in every process, whatever ran before it (a C01 matter): %v", id, sortedKeys(r.M.Sets["history_failures"])))
			continue
		}
		if len(dgs) > 1 {
			var l []string
			for d := range dgs {
				l = append(l, d)
			}
			r.M.Violations = append(r.M.Violations, Violation{Prop: "C13", Key: "mode=indep;kind=bytes_differ_between_processes", Case: "indep/" + id,
				Detail: fmt.Sprintf("history %s had %d different outcomes in processes that had executed other histories (and failed operations of other instances) before it (%v): the output depends on what other instances did earlier in the process; failures seen: %v", id, len(dgs), l, clipStr(fmt.Sprint(sortedKeys(r.M.Sets["history_failures"])), 1200))})
		}
	}
	delete(r.M.Sets, "history_digests")
	delete(r.M.Sets, "history_failures")
}
