package main

import (
	"fmt"
	"math/rand"
	"os"
	"path/filepath"
	"regexp"
	"sort"
	"strings"

	"github.com/parsyl/parquet/verifkit/shapes"
)

var pkgHeader = regexp.MustCompile(`(?m)^# ` + regexp.QuoteMeta(shapes.WorkModule) + `/(\S+)`)

// compileSet builds the given generated packages and returns the set that
// failed to compile (with the compiler output).
func (r *Run) compileSet(names []string) map[string]string {
	failed := map[string]string{}
	if len(names) == 0 {
		return failed
	}
	args := []string{"build"}
	for _, n := range names {
		args = append(args, "./"+n)
	}
	out, err := r.cmd(r.Work, nil, "go", args...)
	if err == nil {
		return failed
	}
	// split the output by "# pkg" headers
	s := string(out)
	idx := pkgHeader.FindAllStringSubmatchIndex(s, -1)
	for i, m := range idx {
		name := s[m[2]:m[3]]
		end := len(s)
		if i+1 < len(idx) {
			end = idx[i+1][0]
		}
		failed[name] = clipStr(s[m[0]:end], 1200)
	}
	if len(failed) == 0 {
		// a failure not attributable to a package (e.g. the repository itself does not compile)
		failed["*"] = clipStr(s, 3000)
	}
	return failed
}

// ShapeOutcome is the build-side outcome for one source.
type ShapeOutcome struct {
	Src    shapes.Src
	Kind   string // "", gen_fail, nondeterministic, compile_fail
	Detail string
}

// buildShapes generates and compiles srcs (one chunk), builds a driver binary
// from those that compiled and returns it with the per-source outcomes.
func (r *Run) buildShapes(pgen string, srcs []shapes.Src, chunk int, twice bool) (string, []ShapeOutcome, error) {
	gres := r.generate(pgen, srcs, twice)
	var outs []ShapeOutcome
	var okNames []string
	for _, g := range gres {
		switch {
		case g.Nondet:
			outs = append(outs, ShapeOutcome{Src: g.Src, Kind: "nondeterministic", Detail: g.Output})
		case !g.OK:
			outs = append(outs, ShapeOutcome{Src: g.Src, Kind: "gen_fail", Detail: "parquetgen failed: " + g.Output})
		default:
			okNames = append(okNames, g.Src.Name)
		}
	}
	failed := r.compileSet(okNames)
	if msg, ok := failed["*"]; ok {
		return "", nil, fmt.Errorf("build failure not attributable to a generated package: %s", msg)
	}
	var good []string
	for _, n := range okNames {
		if msg, bad := failed[n]; bad {
			outs = append(outs, ShapeOutcome{Src: r.Srcs[n], Kind: "compile_fail", Detail: "generated code does not compile:\n" + msg})
		} else {
			good = append(good, n)
		}
	}
	bin := ""
	if len(good) > 0 {
		var out []byte
		var err error
		bin, out, err = r.buildDriver(fmt.Sprintf("drv%d", chunk), good, false)
		if err != nil {
			return "", nil, fmt.Errorf("driver build failed although every package compiled: %s", tail(out, 3000))
		}
	}
	return bin, outs, nil
}

func (r *Run) removeShapes(srcs []shapes.Src, chunk int) {
	if os.Getenv("VERIF_KEEP") != "" {
		return
	}
	for _, s := range srcs {
		os.RemoveAll(filepath.Join(r.Work, s.Name))
	}
	os.RemoveAll(filepath.Join(r.Work, "cmd", fmt.Sprintf("drv%d", chunk)))
	os.Remove(filepath.Join(r.Work, "bin", fmt.Sprintf("drv%d", chunk)))
}

// randomForests draws n distinct forests with lo..hi nodes from a fixed PRNG
// (seed-independent on purpose, see DESIGN.md C05).
func randomForests(n, lo, hi, maxDepth int, fixedSeed int64) [][]*shapes.Node {
	rng := rand.New(rand.NewSource(fixedSeed))
	seen := map[string]bool{}
	var out [][]*shapes.Node
	var build func(budget *int, depth int, forceOne bool) []*shapes.Node
	build = func(budget *int, depth int, forceOne bool) []*shapes.Node {
		var f []*shapes.Node
		for *budget > 0 {
			if len(f) > 0 && rng.Intn(3) == 0 && !forceOne {
				break
			}
			forceOne = false
			*budget--
			n := &shapes.Node{Rep: rng.Intn(3)}
			if depth < maxDepth && *budget > 0 && rng.Intn(5) < 2 {
				n.Group = true
				n.Kids = build(budget, depth+1, true)
			}
			f = append(f, n)
			if depth > 1 && rng.Intn(3) == 0 {
				break
			}
		}
		return f
	}
	for tries := 0; len(out) < n && tries < n*50; tries++ {
		b := lo + rng.Intn(hi-lo+1)
		f := build(&b, 1, true)
		// empty groups are not allowed
		ok := true
		var chk func(ns []*shapes.Node)
		chk = func(ns []*shapes.Node) {
			for _, x := range ns {
				if x.Group && len(x.Kids) == 0 {
					ok = false
				}
				chk(x.Kids)
			}
		}
		chk(f)
		sig := shapes.Sig(f)
		if !ok || seen[sig] {
			continue
		}
		seen[sig] = true
		out = append(out, f)
	}
	return out
}

func c05Sources(r *Run) []shapes.Src {
	if r.Replay != nil && r.Replay.Src != nil {
		return []shapes.Src{*r.Replay.Src}
	}
	if !r.Thorough() {
		srcs := append(append(shapes.EnumSrcs(4, 3), shapes.UniformSrcs(2)...), shapes.ReuseSrcs(3)...)
		srcs = append(srcs, shapes.DeepSrcs([]int{0, 2}, false)...)
		return append(srcs, shapes.DeepSrcs([]int{0, 2}, true)...)
	}
	srcs := append(append(shapes.EnumSrcs(5, 3), shapes.UniformSrcs(3)...), shapes.ReuseSrcs(4)...)
	srcs = append(srcs, shapes.DeepSrcs([]int{0, 1, 2}, false)...)
	srcs = append(srcs, shapes.DeepSrcs([]int{0, 1, 2}, true)...)
	for i, f := range randomForests(2000, 6, 8, 3, 20261003) {
		sig := shapes.Sig(f)
		off := shapes.SigOffset(sig, 8)
		srcs = append(srcs, shapes.Src{Name: fmt.Sprintf("r%05d", i), Type: "T", Sig: fmt.Sprintf("%s@%d", sig, off), Code: shapes.Source(f, shapes.EmitOpts{Offset: off})})
	}
	return srcs
}

func customC05(r *Run) ([]Crash, error) {
	if err := r.initWork(nil); err != nil {
		return nil, err
	}
	pgen, err := r.buildTool("parquetgen", "github.com/parsyl/parquet/cmd/parquetgen")
	if err != nil {
		return nil, &buildViolation{Shape: "parquetgen", Kind: "compile_fail", Detail: err.Error()}
	}
	srcs := c05Sources(r)
	r.M.Counters["programs_enumerated"] = int64(len(srcs))
	var crashes []Crash
	const chunkSize = 400
	for ci, start := 0, 0; start < len(srcs); ci, start = ci+1, start+chunkSize {
		end := start + chunkSize
		if end > len(srcs) {
			end = len(srcs)
		}
		chunk := srcs[start:end]
		bin, outs, err := r.buildShapes(pgen, chunk, ci, true)
		if err != nil {
			return crashes, err
		}
		r.M.Counters["programs"] += int64(len(chunk))
		for _, o := range outs {
			r.M.Counters["kind_"+o.Kind]++
			r.M.Violations = append(r.M.Violations, Violation{Prop: r.Prop, Key: "shape=" + o.Src.Sig + ";kind=" + o.Kind, Case: o.Src.Name, Shape: o.Src.Name,
				Detail: fmt.Sprintf("struct shape %s:\n%s\n%s", o.Src.Sig, o.Src.Code, o.Detail)})
		}
		if bin != "" {
			n := r.Spec.Shards
			if len(chunk) < n {
				n = len(chunk)
			}
			if r.Only != "" {
				n = 1
			}
			crashes = append(crashes, r.runShards(bin, n, r.timeout(), nil, nil)...)
		}
		r.log("chunk %d: %d shapes, %d build-side failures, %d violations so far", ci, len(chunk), len(outs), len(r.M.Violations))
		r.removeShapes(chunk, ci)
	}
	// samples: a clean shape and a failing one, written out
	if len(srcs) > 0 {
		r.M.Samples = append([]interface{}{map[string]interface{}{"shape": srcs[len(srcs)/2].Sig, "source": srcs[len(srcs)/2].Code}}, r.M.Samples...)
	}
	r.M.Counters["disagreements_checked"] = int64(len(distinctShapes(r.M.Violations)))
	return crashes, nil
}

func distinctShapes(vs []Violation) map[string]bool {
	m := map[string]bool{}
	for _, v := range vs {
		m[v.Key] = true
	}
	return m
}

// knownKeysFor returns the known-finding keys of a property (used by C02/C03
// style filters that must skip shapes C05 lists as broken).
func knownShapeSigs(kit string) map[string]bool {
	k, err := loadKnown(kit)
	out := map[string]bool{}
	if err != nil {
		return out
	}
	for _, f := range k.Findings {
		if f.Property == "C05" && strings.HasPrefix(f.Key, "shape=") {
			sig := strings.TrimPrefix(f.Key, "shape=")
			if i := strings.Index(sig, ";"); i >= 0 {
				sig = sig[:i]
			}
			out[sig] = true
		}
	}
	return out
}

func sortedSrcNames(m map[string]shapes.Src) []string {
	var out []string
	for k := range m {
		out = append(out, k)
	}
	sort.Strings(out)
	return out
}
