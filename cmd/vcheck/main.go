// Command vcheck is the orchestrator of the runtime-monitoring checks: it
// rebuilds parquetgen and the generated packages from the repository's current
// working tree, runs the driver binaries as child processes, merges what their
// monitors observed, applies known_findings.json and writes the evidence file.
package main

import (
	"fmt"
	"os"
	"strconv"
	"strings"
)

func usage() {
	fmt.Fprintln(os.Stderr, `usage:
  vcheck run <Cxx> [--tier quick|thorough]     (env: VERIF_SEED, VERIF_TIER, VERIF_REPO, VERIF_KEEP=1)
  vcheck replay <replay-file>
  vcheck warm
  vcheck list`)
	os.Exit(3)
}

func main() {
	if len(os.Args) < 2 {
		usage()
	}
	switch os.Args[1] {
	case "run":
		if len(os.Args) < 3 {
			usage()
		}
		prop := os.Args[2]
		tier := os.Getenv("VERIF_TIER")
		for i := 3; i < len(os.Args); i++ {
			if os.Args[i] == "--tier" && i+1 < len(os.Args) {
				tier = os.Args[i+1]
				i++
			} else if strings.HasPrefix(os.Args[i], "--tier=") {
				tier = strings.TrimPrefix(os.Args[i], "--tier=")
			}
		}
		if tier != "thorough" {
			tier = "quick"
		}
		seed := int64(1)
		if s := os.Getenv("VERIF_SEED"); s != "" {
			if v, err := strconv.ParseInt(s, 10, 64); err == nil {
				seed = v
			}
		}
		os.Exit(runCheck(prop, tier, seed, ""))
	case "replay":
		if len(os.Args) < 3 {
			usage()
		}
		os.Exit(replay(os.Args[2]))
	case "warm":
		os.Exit(warm())
	case "list":
		for _, id := range propOrder {
			fmt.Println(id, "-", specs[id].Title)
		}
	default:
		usage()
	}
}
